#!/venv/bin/python
"""Ingest a sub-agent's seeded change: confirm it (demo passes clean / fails patched, baseline
still passes), run our check against it in a scratch worktree, and store it under
/verif/seeded/<name>/ (patch.diff, demo.py, meta.json).

  tools/seed.py ingest <PID> <src_dir> <k> [--tier quick] [--no-baseline]
  tools/seed.py rerun [name ...] [--tier quick]       # re-run checks against stored seeds
"""
import argparse
import json
import os
import shutil
import subprocess
import sys

HERE = os.path.dirname(os.path.dirname(os.path.abspath(__file__)))
sys.path.insert(0, HERE)
from tools import mut  # noqa


def run_demo(wt, demo):
    env = dict(os.environ, PYTHONPATH=wt)
    try:
        r = subprocess.run(["/venv/bin/python", demo], env=env, cwd=os.path.dirname(demo), capture_output=True, text=True, timeout=900)
        return r.returncode, (r.stdout + r.stderr)[-1500:]
    except subprocess.TimeoutExpired:
        return "timeout", ""


def check_against(patch, pid, tier):
    wt = mut.make_wt("seed-" + os.path.basename(os.path.dirname(os.path.abspath(patch))))
    try:
        r = mut.sh(["git", "-C", wt, "apply", os.path.abspath(patch)])
        if r.returncode:
            return {"error": "apply failed: " + r.stderr}
        rc, viol, keys, out = mut.run_check(wt, pid, tier)
        return {"rc": rc, "caught": rc == 1 and bool(viol), "keys": keys, "tail": out[-800:] if rc != 1 else ""}
    finally:
        mut.rm_wt(wt)


def ingest(a):
    pid, src, k = a.pid, a.src, a.k
    name = f"{pid}-{k}" if not a.name else a.name
    dst = os.path.join(HERE, "seeded", name)
    os.makedirs(dst, exist_ok=True)
    shutil.copy(os.path.join(src, f"patch{k}.diff"), os.path.join(dst, "patch.diff"))
    shutil.copy(os.path.join(src, f"demo{k}.py"), os.path.join(dst, "demo.py"))
    patch, demo = os.path.join(dst, "patch.diff"), os.path.join(dst, "demo.py")
    meta = {"name": name, "property": pid, "source": "independent sub-agent given only the property text and a scratch worktree"}
    wt = mut.make_wt("ingest-" + name)
    try:
        rc_clean, _ = run_demo(wt, demo)
        r = mut.sh(["git", "-C", wt, "apply", patch])
        if r.returncode:
            print("apply failed", r.stderr)
            return 2
        rc_patched, tail = run_demo(wt, demo)
        meta["demo_exit_clean"] = rc_clean
        meta["demo_exit_patched"] = rc_patched
        meta["demo_output_patched"] = tail[-600:]
        if not a.no_baseline:
            ok, missing = mut.baseline(wt)
            meta["baseline_passes_with_change"] = ok
            meta["baseline_missing"] = missing[:5]
    finally:
        mut.rm_wt(wt)
    meta["confirmed"] = bool(rc_clean == 0 and rc_patched not in (0, "timeout") and meta.get("baseline_passes_with_change", True))
    res = check_against(patch, pid, a.tier)
    meta["check_" + a.tier] = res
    if not res.get("caught") and a.tier == "quick" and a.thorough_on_miss:
        meta["check_thorough"] = check_against(patch, pid, "thorough")
    notes = os.path.join(src, "notes.md")
    if os.path.exists(notes):
        meta["agent_notes_excerpt"] = open(notes).read()[:3000]
    meta["needs"] = a.needs or ""
    meta["ran"] = [f"PYTHONPATH=<clean worktree> /venv/bin/python demo.py -> exit {rc_clean}",
                   f"PYTHONPATH=<patched worktree> /venv/bin/python demo.py -> exit {rc_patched}",
                   "baseline (112 stable tests) on the patched worktree" + (f" -> ok={meta.get('baseline_passes_with_change')}" if not a.no_baseline else " (skipped)"),
                   f"./check {pid} --tier {a.tier} against the patched worktree -> {res}"]
    json.dump(meta, open(os.path.join(dst, "meta.json"), "w"), indent=1)
    print(json.dumps({k_: meta[k_] for k_ in ("name", "confirmed", "demo_exit_clean", "demo_exit_patched", "baseline_passes_with_change") if k_ in meta}))
    print("check:", json.dumps({kk: vv for kk, vv in res.items() if kk != "tail"}), res.get("tail", "")[-400:] if not res.get("caught") else "")
    if "check_thorough" in meta:
        print("thorough:", json.dumps({kk: vv for kk, vv in meta["check_thorough"].items() if kk != "tail"}))


def rerun(a):
    base = os.path.join(HERE, "seeded")
    names = a.names or sorted(os.listdir(base))
    for n in names:
        d = os.path.join(base, n)
        mp = os.path.join(d, "meta.json")
        if not os.path.exists(mp):
            continue
        meta = json.load(open(mp))
        res = check_against(os.path.join(d, "patch.diff"), meta["property"], a.tier)
        meta["check_" + a.tier] = res
        json.dump(meta, open(mp, "w"), indent=1)
        print(n, json.dumps({kk: vv for kk, vv in res.items() if kk != "tail"}))
        sys.stdout.flush()


if __name__ == "__main__":
    ap = argparse.ArgumentParser()
    sub = ap.add_subparsers(dest="cmd")
    p = sub.add_parser("ingest")
    p.add_argument("pid")
    p.add_argument("src")
    p.add_argument("k")
    p.add_argument("--tier", default="quick")
    p.add_argument("--name")
    p.add_argument("--needs")
    p.add_argument("--no-baseline", action="store_true")
    p.add_argument("--thorough-on-miss", action="store_true")
    p = sub.add_parser("rerun")
    p.add_argument("names", nargs="*")
    p.add_argument("--tier", default="quick")
    a = ap.parse_args()
    sys.exit(ingest(a) if a.cmd == "ingest" else rerun(a))
