#!/venv/bin/python
"""Mutation harness: apply one catalogued change to a scratch worktree of /repo (under
/tmp, removed afterwards), run a check against it (PYTHONPATH override) and report
whether the check fires. Optionally run the pinned baseline on the mutant.

  tools/mut.py list
  tools/mut.py run [--tier quick] [--baseline] [--jobs 4] <mutant-id|Cnn|all> ...
  tools/mut.py patch <patch.diff> <Cnn> [--tier quick] [--baseline]
"""
import argparse
import concurrent.futures as cf
import json
import os
import re
import shutil
import subprocess
import sys
import xml.etree.ElementTree as ET

HERE = os.path.dirname(os.path.dirname(os.path.abspath(__file__)))
sys.path.insert(0, HERE)
REPO = "/repo"
SCRATCH = "/tmp/vfmut"


def sh(cmd, **kw):
    return subprocess.run(cmd, shell=isinstance(cmd, str), capture_output=True, text=True, **kw)


def make_wt(name):
    wt = os.path.join(SCRATCH, name)
    if os.path.exists(wt):
        sh(["git", "-C", REPO, "worktree", "remove", "--force", wt])
        shutil.rmtree(wt, ignore_errors=True)
    os.makedirs(SCRATCH, exist_ok=True)
    r = sh(["git", "-C", REPO, "worktree", "add", "--detach", wt, "HEAD"])
    if r.returncode:
        raise RuntimeError(r.stderr)
    return wt


def rm_wt(wt):
    sh(["git", "-C", REPO, "worktree", "remove", "--force", wt])
    shutil.rmtree(wt, ignore_errors=True)
    sh(["git", "-C", REPO, "worktree", "prune"])


def apply_mutant(wt, m):
    for ed in m["edits"]:
        p = os.path.join(wt, ed["file"])
        s = open(p).read()
        n = s.count(ed["old"])
        want = ed.get("count", 1)
        if n != want:
            raise RuntimeError(f"{m['id']}: expected {want} occurrence(s) of old text in {ed['file']}, found {n}")
        s = s.replace(ed["old"], ed["new"])
        open(p, "w").write(s)


def run_check(wt, pid, tier, seed=0):
    env = dict(os.environ, PYTHONPATH=wt, VERIF_SEED=str(seed))
    env.pop("VERIF_TIER", None)
    # evidence of the real tree must not be clobbered by mutant runs: use a private VERIF_ROOT copy? no —
    # evidence is rewritten by the next real run; mutant runs write to a scratch evidence dir instead.
    env["VERIF_EVIDENCE_DIR"] = os.path.join(wt, ".vf-evidence")
    r = sh([os.path.join(HERE, "check"), pid, "--tier", tier], env=env, cwd=HERE)
    out = r.stdout + r.stderr
    viol = [l for l in out.splitlines() if l.startswith("VIOLATION")]
    keys = sorted(set(re.findall(r"key=(\S+)", out)))
    return r.returncode, viol, keys, out


def baseline(wt):
    stable = set(json.load(open("/root/.vp/BASELINE.json"))["stable_pass"])
    junit = os.path.join(wt, ".junit.xml")
    env = dict(os.environ, PYTHONPATH=wt)
    sh(f"cd {wt} && /venv/bin/python -m pytest -q -p no:cacheprovider --timeout=900 --continue-on-collection-errors --junitxml={junit} 2>&1 | tail -3", env=env)
    if not os.path.exists(junit):
        return None, ["no junit"]
    passed = set()
    for tc in ET.parse(junit).getroot().iter("testcase"):
        if not any(ch.tag in ("failure", "error", "skipped") for ch in tc):
            passed.add(f"{tc.get('classname')}::{tc.get('name')}")
    missing = sorted(stable - passed)
    return len(missing) == 0, missing


def one(m, tier, do_base):
    wt = make_wt(m["id"])
    try:
        apply_mutant(wt, m)
        res = {"id": m["id"], "property": m["property"]}
        rc, viol, keys, out = run_check(wt, m["property"], tier)
        res.update(rc=rc, caught=(rc == 1 and bool(viol)), keys=keys)
        if rc not in (0, 1):
            res["tail"] = out[-1500:]
        if do_base:
            ok, missing = baseline(wt)
            res.update(baseline_ok=ok, baseline_missing=missing[:5])
        return res
    except Exception as e:
        return {"id": m["id"], "property": m["property"], "error": str(e)}
    finally:
        rm_wt(wt)


def main():
    from tools.mutants import MUTANTS

    ap = argparse.ArgumentParser()
    ap.add_argument("cmd", choices=["list", "run", "patch"])
    ap.add_argument("ids", nargs="*")
    ap.add_argument("--tier", default="quick")
    ap.add_argument("--baseline", action="store_true")
    ap.add_argument("--jobs", type=int, default=3)
    a = ap.parse_args()
    if a.cmd == "list":
        for m in MUTANTS:
            print(m["id"], m["property"], "-", m["desc"])
        return
    if a.cmd == "patch":
        patch, pid = a.ids[0], a.ids[1]
        wt = make_wt("patch-" + os.path.basename(os.path.dirname(os.path.abspath(patch))))
        try:
            r = sh(["git", "-C", wt, "apply", os.path.abspath(patch)])
            if r.returncode:
                print("apply failed:", r.stderr)
                return 2
            rc, viol, keys, out = run_check(wt, pid, a.tier)
            print(json.dumps({"patch": patch, "property": pid, "rc": rc, "caught": rc == 1 and bool(viol), "keys": keys}))
            if rc not in (0, 1) or not viol:
                print(out[-2500:])
            if a.baseline:
                print("baseline:", baseline(wt))
        finally:
            rm_wt(wt)
        return
    sel = []
    for m in MUTANTS:
        if "all" in a.ids or m["id"] in a.ids or m["property"] in a.ids:
            sel.append(m)
    with cf.ThreadPoolExecutor(max_workers=a.jobs) as ex:
        for res in ex.map(lambda m: one(m, a.tier, a.baseline), sel):
            print(json.dumps(res))
            sys.stdout.flush()


if __name__ == "__main__":
    sys.exit(main())
