"""Catalogue of deliberate property-breaking changes (DESIGN §6). Each is an exact
string replacement applied to a scratch worktree by tools/mut.py; none is ever
committed to /repo."""

MUTANTS = []


def M(id, prop, desc, file, old, new, count=1):
    MUTANTS.append({"id": id, "property": prop, "desc": desc,
                    "edits": [{"file": file, "old": old, "new": new, "count": count}]})


CM = "sleap_nn/data/confidence_maps.py"
M("c01-sigma-units", "C01", "generate_confmaps: sigma not multiplied by stride", CM,
  "        yv,\n        sigma * output_stride,\n    )  # (n_samples, n_nodes, height/ output_stride, width/ output_stride)\n\n    return confidence_maps\n\n\ndef generate_multiconfmaps",
  "        yv,\n        sigma,\n    )  # (n_samples, n_nodes, height/ output_stride, width/ output_stride)\n\n    return confidence_maps\n\n\ndef generate_multiconfmaps")
M("c01-nan-to-num", "C01", "make_confmaps: nan_to_num dropped", CM, "    cm = torch.nan_to_num(cm)\n", "    pass\n")
M("c01-two-sigma", "C01", "make_confmaps: 2*sigma**2 -> sigma**2", CM, "/ (2 * sigma**2))", "/ (sigma**2))")
M("c01-numinst-slice", "C01", "generate_multiconfmaps: num_instances slice off by one (centroids)", CM,
  "points = instances[:, :num_instances, :].unsqueeze(dim=-2)", "points = instances[:, : max(num_instances - 1, 1), :].unsqueeze(dim=-2)")
M("c01-max-to-sum", "C01", "make_multi_confmaps: max -> clipped sum", CM,
  "cms = torch.maximum(cms, cm_instance)", "cms = torch.clamp(cms + cm_instance, max=1.0)")
M("c01-grid-offset", "C01", "make_grid_vectors: grid offset by stride//2", "sleap_nn/data/utils.py",
  "xv = torch.arange(0, image_width, step=output_stride, dtype=torch.float32)",
  "xv = torch.arange(0, image_width, step=output_stride, dtype=torch.float32) + (output_stride // 2)")
M("c01-dp-sigma", "C01", "MultiConfidenceMapGenerator: sigma not multiplied by stride", CM,
  "                self.sigma * self.output_stride,\n            )\n\n            if self.centroids:", "                self.sigma,\n            )\n\n            if self.centroids:")

EM = "sleap_nn/data/edge_maps.py"
M("c05-src-dst-swap", "C05", "make_pafs: unit vector src-dst swapped", EM,
  "    unit_vectors = edge_destination - edge_source\n    unit_vectors = unit_vectors / torch.norm", "    unit_vectors = edge_source - edge_destination\n    unit_vectors = unit_vectors / torch.norm")
M("c05-not-normalised", "C05", "make_pafs: unit vector not normalised", EM,
  "    unit_vectors = unit_vectors / torch.norm(unit_vectors, dim=-1, keepdim=True)\n", "    unit_vectors = unit_vectors / torch.clamp(torch.norm(unit_vectors, dim=-1, keepdim=True), max=1.0)\n")
M("c05-nan-zero-removed", "C05", "make_multi_pafs: NaN -> 0 removed", EM, "        paf[torch.isnan(paf)] = 0.0\n", "")
M("c05-last-wins", "C05", "make_multi_pafs: += -> maximum", EM, "        pafs += paf\n", "        pafs = torch.where(paf.abs() > pafs.abs(), paf, pafs)\n")
M("c05-flatten-component-major", "C05", "generate_pafs: component-major flatten", EM,
  "        pafs = pafs.reshape(n_edges * 2, grid_height, grid_width)\n        assert pafs.shape == (n_edges * 2, grid_height, grid_width)\n\n    return pafs",
  "        pafs = pafs.permute(1, 0, 2, 3).reshape(n_edges * 2, grid_height, grid_width)\n        assert pafs.shape == (n_edges * 2, grid_height, grid_width)\n\n    return pafs")
M("c05-filter-dropped", "C05", "generate_pafs: in-image filter dropped", EM,
  "    assert len(in_img.shape) == 1\n    instances = instances[in_img]\n", "    assert len(in_img.shape) == 1\n")
M("c05-clamp-removed", "C05", "distance_to_edge: projection clamp to segment removed (upper)", EM,
  "    line_projections = torch.clamp(line_projections, min=0, max=1)", "    line_projections = torch.clamp(line_projections, min=0)")
M("c05-dp-filter-all", "C05", "PartAffinityFieldsGenerator: any(dim=1) -> all(dim=1)", EM,
  "            in_img = in_img.all(dim=-1).any(dim=1)", "            in_img = in_img.all(dim=-1).all(dim=1)")
