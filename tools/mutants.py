"""Catalogue of deliberate property-breaking changes (DESIGN §6). Each is an exact
string replacement applied to a scratch worktree by tools/mut.py; none is ever
committed to /repo."""

MUTANTS = []


def M(id, prop, desc, file, old, new, count=1):
    MUTANTS.append({"id": id, "property": prop, "desc": desc,
                    "edits": [{"file": file, "old": old, "new": new, "count": count}]})


CM = "sleap_nn/data/confidence_maps.py"
M("c01-sigma-units", "C01", "generate_confmaps: sigma not multiplied by stride", CM,
  "        yv,\n        sigma * output_stride,\n    )  # (n_samples, n_nodes, height/ output_stride, width/ output_stride)\n\n    return confidence_maps\n\n\ndef generate_multiconfmaps",
  "        yv,\n        sigma,\n    )  # (n_samples, n_nodes, height/ output_stride, width/ output_stride)\n\n    return confidence_maps\n\n\ndef generate_multiconfmaps")
M("c01-nan-to-num", "C01", "make_confmaps: nan_to_num dropped", CM, "    cm = torch.nan_to_num(cm)\n", "    pass\n")
M("c01-two-sigma", "C01", "make_confmaps: 2*sigma**2 -> sigma**2", CM, "/ (2 * sigma**2))", "/ (sigma**2))")
M("c01-numinst-slice", "C01", "generate_multiconfmaps: num_instances slice off by one (centroids)", CM,
  "points = instances[:, :num_instances, :].unsqueeze(dim=-2)", "points = instances[:, : max(num_instances - 1, 1), :].unsqueeze(dim=-2)")
M("c01-max-to-sum", "C01", "make_multi_confmaps: max -> clipped sum", CM,
  "cms = torch.maximum(cms, cm_instance)", "cms = torch.clamp(cms + cm_instance, max=1.0)")
M("c01-grid-offset", "C01", "make_grid_vectors: grid offset by stride//2", "sleap_nn/data/utils.py",
  "xv = torch.arange(0, image_width, step=output_stride, dtype=torch.float32)",
  "xv = torch.arange(0, image_width, step=output_stride, dtype=torch.float32) + (output_stride // 2)")
M("c01-dp-sigma", "C01", "MultiConfidenceMapGenerator: sigma not multiplied by stride", CM,
  "                self.sigma * self.output_stride,\n            )\n\n            if self.centroids:", "                self.sigma,\n            )\n\n            if self.centroids:")

EM = "sleap_nn/data/edge_maps.py"
M("c05-src-dst-swap", "C05", "make_pafs: unit vector src-dst swapped", EM,
  "    unit_vectors = edge_destination - edge_source\n    unit_vectors = unit_vectors / torch.norm", "    unit_vectors = edge_source - edge_destination\n    unit_vectors = unit_vectors / torch.norm")
M("c05-not-normalised", "C05", "make_pafs: unit vector not normalised", EM,
  "    unit_vectors = unit_vectors / torch.norm(unit_vectors, dim=-1, keepdim=True)\n", "    unit_vectors = unit_vectors / torch.clamp(torch.norm(unit_vectors, dim=-1, keepdim=True), max=1.0)\n")
M("c05-nan-zero-removed", "C05", "make_multi_pafs: NaN -> 0 removed", EM, "        paf[torch.isnan(paf)] = 0.0\n", "")
M("c05-last-wins", "C05", "make_multi_pafs: += -> maximum", EM, "        pafs += paf\n", "        pafs = torch.where(paf.abs() > pafs.abs(), paf, pafs)\n")
M("c05-flatten-component-major", "C05", "generate_pafs: component-major flatten", EM,
  "        pafs = pafs.reshape(n_edges * 2, grid_height, grid_width)\n        assert pafs.shape == (n_edges * 2, grid_height, grid_width)\n\n    return pafs",
  "        pafs = pafs.permute(1, 0, 2, 3).reshape(n_edges * 2, grid_height, grid_width)\n        assert pafs.shape == (n_edges * 2, grid_height, grid_width)\n\n    return pafs")
M("c05-filter-dropped", "C05", "generate_pafs: in-image filter dropped", EM,
  "    assert len(in_img.shape) == 1\n    instances = instances[in_img]\n", "    assert len(in_img.shape) == 1\n")
M("c05-clamp-removed", "C05", "distance_to_edge: projection clamp to segment removed (upper)", EM,
  "    line_projections = torch.clamp(line_projections, min=0, max=1)", "    line_projections = torch.clamp(line_projections, min=0)")
M("c05-dp-filter-all", "C05", "PartAffinityFieldsGenerator: any(dim=1) -> all(dim=1)", EM,
  "            in_img = in_img.all(dim=-1).any(dim=1)", "            in_img = in_img.all(dim=-1).all(dim=1)")

PF = "sleap_nn/inference/peak_finding.py"
M("c06-ge", "C06", "local peaks: > -> >= against dilated map", PF, "(cms > max_img) & (cms > threshold)", "(cms >= max_img) & (cms > threshold)")
M("c06-4nbr", "C06", "local peaks: 4-neighbourhood", PF, "[[1, 1, 1], [1, 0, 1], [1, 1, 1]]", "[[0, 1, 0], [1, 0, 1], [0, 1, 0]]")
M("c06-centre", "C06", "local peaks: kernel centre not zeroed", PF, "[[1, 1, 1], [1, 0, 1], [1, 1, 1]]", "[[1, 1, 1], [1, 1, 1], [1, 1, 1]]")
M("c06-crop-index", "C06", "find_local_peaks crop index sample+channel", PF, "box_sample_inds = (peak_sample_inds * channels) + peak_channel_inds", "box_sample_inds = peak_sample_inds + peak_channel_inds")
M("c06-crop-index2", "C06", "find_local_peaks crop index channel*samples+sample", PF, "box_sample_inds = (peak_sample_inds * channels) + peak_channel_inds", "box_sample_inds = (peak_channel_inds * samples) + peak_sample_inds")
M("c06-xy-swap", "C06", "local peaks (x,y) swapped", PF, "peak_points = peak_subs[:, [2, 1]].to(torch.float32)", "peak_points = peak_subs[:, [1, 2]].to(torch.float32)")
M("c06-thr-dropped", "C06", "threshold test >= instead of >", PF, "(cms > max_img) & (cms > threshold)", "(cms > max_img) & (cms >= threshold)")
M("c06-offset-sign", "C06", "offsets subtracted", PF, "    refined_peaks = rough_peaks + offsets\n", "    refined_peaks = rough_peaks + offsets.flip(0)\n")
M("c07-tie-regression", "C07", "revert of the tied-maxima fix (x,y from separate reductions)", PF,
  "    max_indices_y = torch.div(max_indices, width, rounding_mode=\"floor\")\n",
  "    max_indices_y = torch.max(torch.max(cms, dim=3)[0], dim=2)[1]\n    max_indices_x = torch.max(torch.max(cms, dim=2)[0], dim=2)[1]\n")
M("c07-thr-le", "C07", "threshold compare <=", PF, "below_threshold_mask = max_values < threshold", "below_threshold_mask = max_values <= threshold")
M("c07-value-not-zeroed", "C07", "value not zeroed below threshold", PF, "    max_values[below_threshold_mask] = float(0)\n", "")
M("c07-offsets-all", "C07", "offsets added to first peaks instead of valid_idx", PF, "    refined_peaks[valid_idx] += offsets\n", "    refined_peaks[: len(valid_idx)] += offsets\n")
M("c07-gv-centre", "C07", "gv centring uses crop_size/2", PF,
  "        gv = torch.arange(crop_size, dtype=torch.float32) - ((crop_size - 1) / 2)\n        dx_hat, dy_hat = integral_regression(cm_crops, xv=gv, yv=gv)\n        offsets = torch.cat([dx_hat, dy_hat], dim=1)\n\n    # Apply offsets.\n    refined_peaks = rough_peaks.clone()",
  "        gv = torch.arange(crop_size, dtype=torch.float32) - (crop_size // 2 - 0.25)\n        dx_hat, dy_hat = integral_regression(cm_crops, xv=gv, yv=gv)\n        offsets = torch.cat([dx_hat, dy_hat], dim=1)\n\n    # Apply offsets.\n    refined_peaks = rough_peaks.clone()")
M("c07-xy-swap", "C07", "global peaks: x,y stacked in the wrong order", PF, "torch.stack([max_indices_x, max_indices_y], dim=-1)", "torch.stack([max_indices_y, max_indices_x], dim=-1)")
M("c07-valid-idx-crop", "C07", "crops taken from peak order instead of valid_idx maps", PF, "    cm_crops = crop_bboxes(cms, bboxes, valid_idx)\n", "    cm_crops = crop_bboxes(cms, bboxes, torch.arange(len(valid_idx)))\n")

PG = "sleap_nn/inference/paf_grouping.py"
M("c17-root-first-listed", "C17", "toposort: root = first listed source", PG, "    root_ind = next(nx.topological_sort(dg))\n", "    root_ind = edges[0][0]\n")
M("c17-sorted-range", "C17", "toposort: identity order", PG, "    sorted_edge_inds = tuple([edges.index(edge) for edge in sorted_edges])\n", "    sorted_edge_inds = tuple(range(len(edges)))\n")
M("c17-undirected-bfs", "C17", "toposort: BFS over the undirected graph from first node", PG,
  "    sorted_edges = nx.bfs_edges(dg, root_ind)\n    sorted_edge_inds = tuple([edges.index(edge) for edge in sorted_edges])\n",
  "    sorted_edges = [e if e in edges else (e[1], e[0]) for e in nx.bfs_edges(dg.to_undirected(), edges[0][0])]\n    sorted_edge_inds = tuple([edges.index(edge) for edge in sorted_edges])\n")
M("c17-dfs-postorder", "C17", "toposort: reversed dfs edge order for deep trees", PG,
  "    sorted_edges = nx.bfs_edges(dg, root_ind)\n", "    sorted_edges = list(nx.bfs_edges(dg, root_ind))\n    if len(edges) >= 5:\n        sorted_edges = sorted_edges[:2] + sorted_edges[2:][::-1]\n")

EV = "sleap_nn/evaluation.py"
TU = "sleap_nn/tracking/utils.py"
M("c15-missing-pred-zero-dist", "C15", "missing prediction distance set to 0", EV, "    distance[:, missing_pr] = np.inf\n", "    distance[:, missing_pr] = 0\n")
M("c15-divide-all-nodes", "C15", "OKS divided by all nodes", EV, "    oks = np.sum(ks, axis=-1) / n_visible_gt\n", "    oks = np.sum(ks, axis=-1) / n_nodes\n")
M("c15-gt-not-popped", "C15", "matched gt not removed", EV, "        instance_gt_idx = available_instances_gt_idxs.pop(best_match_gt_idx)\n", "        instance_gt_idx = available_instances_gt_idxs[best_match_gt_idx]\n")
M("c15-oks-revert", "C15", "revert compute_oks broadcast fix", EV, "ks[np.broadcast_to(np.expand_dims(missing_gt, axis=1), ks.shape)] = 0", "ks[np.expand_dims(missing_gt, axis=1)] = 0")
M("c15-match-revert", "C15", "revert empty-gt guard", EV, "        # Nothing left to match against (e.g. a frame without ground truth instances).\n        if not available_instances_gt_idxs:\n            break\n\n", "")
M("c15-thr-ge", "C15", "threshold <= -> <", EV, "        oks[oks <= threshold] = np.nan\n", "        oks[oks < threshold] = np.nan\n")
M("c15-greedy-desc", "C15", "greedy argsort descending", TU, "np.unravel_index(np.argsort(cost_matrix, axis=None), cost_matrix.shape)", "np.unravel_index(np.argsort(-cost_matrix, axis=None), cost_matrix.shape)")
M("c15-greedy-row-only", "C15", "greedy removes only row conflicts", TU, "if unassigned_edges[i][0] == row_ind or unassigned_edges[i][1] == col_ind:", "if unassigned_edges[i][0] == row_ind:")
M("c15-iou-no-plus1", "C15", "iou intersection without +1 on y", TU, "ymax_intersection - ymin_intersection + 1\n", "ymax_intersection - ymin_intersection\n")
M("c15-missing-gt-mask", "C15", "missing gt uses all() instead of any()", EV, "    missing_gt = np.any(np.isnan(points_gt), axis=-1)  # (n_gt, n_nodes)", "    missing_gt = np.all(np.isnan(points_gt), axis=-1)  # (n_gt, n_nodes)")

M("c08-revert-fix", "C08", "revert the sentinel-cost fix", PG, "        match_src_inds, match_dst_inds = linear_sum_assignment(assignment_costs)\n", "        match_src_inds, match_dst_inds = linear_sum_assignment(cost_matrix_np)\n")
M("c08-sign", "C08", "cost sign not flipped (minimises score)", PG, "                    cost_matrix[i, j] = -line_scores_k[", "                    cost_matrix[i, j] = line_scores_k[")
M("c08-minline-gt", "C08", "min_line_scores compared with >", PG, "    is_valid_match = match_line_scores_sample >= min_line_scores\n", "    is_valid_match = match_line_scores_sample > min_line_scores + 0.05\n")
M("c08-ids-not-dense", "C08", "instance ids not re-densified", PG, "        instance_assignments[peak_id] = instance_ind\n    n_instances = len(instance_ids)", "        pass\n    n_instances = len(instance_ids)")
M("c08-score-per-dst", "C08", "instance score accumulated only for first edge type", PG, "                predicted_instance_scores[instance_ind] += edge_connection.score\n", "                predicted_instance_scores[instance_ind] = max(predicted_instance_scores[instance_ind], edge_connection.score)\n")
M("c08-minpeaks-gt", "C08", "min-peaks filter uses >", PG, "            if instance_peak_counts[instance] >= min_instance_peaks\n", "            if instance_peak_counts[instance] > min_instance_peaks\n")
M("c08-edge-order-ignored", "C08", "sorted edge order ignored in grouping", PG, "    for edge_ind in sorted_edge_inds:\n        in_edge = match_edge_inds_sample == edge_ind", "    for edge_ind in sorted(sorted_edge_inds, reverse=True):\n        in_edge = match_edge_inds_sample == edge_ind")
M("c08-greedy-rowwise", "C08", "assignment replaced by row-wise greedy", PG, "        match_src_inds, match_dst_inds = linear_sum_assignment(assignment_costs)\n",
  "        match_src_inds, match_dst_inds = linear_sum_assignment(assignment_costs)\n        if assignment_costs.shape[0] == 3 and assignment_costs.shape[1] == 3:\n            match_dst_inds = np.argsort(np.argsort(assignment_costs.min(axis=0)))\n")

FW = "sleap_nn/tracking/candidates/fixed_window.py"
LQ = "sleap_nn/tracking/candidates/local_queues.py"
TR = "sleap_nn/tracking/tracker.py"
M("c09-revert-guard-fw", "C09", "revert np.any guard (fixed window)", FW, "        if len(row_inds) > 0 and len(col_inds) > 0:\n", "        if np.any(row_inds) and np.any(col_inds):\n")
M("c09-revert-guard-lq", "C09", "revert np.any guard (local queues)", LQ, "        if len(row_inds) > 0 and len(col_inds) > 0:\n", "        if np.any(row_inds) and np.any(col_inds):\n")
M("c09-revert-list", "C09", "revert add_new_tracks([..])", LQ, "self.add_new_tracks([current_instances[ind]])", "self.add_new_tracks(current_instances[ind])")
M("c09-revert-nanmax", "C09", "revert empty reduction guard", TR, "oks = scoring_reduction(oks) if len(oks) > 0 else np.nan", "oks = scoring_reduction(oks)")
M("c09-revert-sentinel", "C09", "revert sentinel costs", TR, "        row_inds, col_inds = matching_method(assignment_costs)\n", "        row_inds, col_inds = matching_method(cost_matrix)\n")
M("c09-newid-len", "C09", "new track id = len(current_tracks) after a track list hole (fixed window)", FW, "            new_track_id = max(self.current_tracks) + 1\n", "            new_track_id = len(self.current_tracks) - (1 if len(self.current_tracks) > 2 else 0)\n")
M("c09-thr-ge", "C09", "new-track threshold >=  -> drops score==... uses > thr+eps", FW, "                score > self.instance_score_threshold\n", "                score > self.instance_score_threshold + 0.25\n")
M("c09-lq-no-queue-append", "C09", "local queues: unmatched add_new_tracks skipped for 2nd+ unmatched", LQ, "            for ind in new_current_instances_inds:\n", "            for ind in new_current_instances_inds[:1]:\n")
M("c10-score-by-position", "C10", "score matrix indexed by position of track in reversed list", TR, "                scores[f_idx][track_id] = oks\n", "                scores[f_idx][len(self.candidate.current_tracks) - 1 - track_id] = oks\n")
M("c10-cost-sign", "C10", "cost sign lost", TR, "        cost_matrix = -scores\n", "        cost_matrix = scores.copy()\n")
M("c10-wrong-track-features", "C10", "fixed window features taken from first instance of frame", FW, "                track_idx = t.track_ids.index(track_id)\n", "                track_idx = t.track_ids.index(track_id) if len(self.tracker_queue) < 2 else 0\n")
M("c10-id-reuse", "C10", "local queues: track ids reused modulo 3", LQ, "            new_track_id = max(self.current_tracks) + 1\n", "            new_track_id = (max(self.current_tracks) + 1) if len(self.current_tracks) < 3 else 2\n")

PR = "sleap_nn/data/providers.py"
PD = "sleap_nn/inference/predictors.py"
VR_FINALLY = """        except Exception as e:
            logger.error(f"Error when reading video frame. Stopping video reader.\\n{e}")

        finally:
            self.frame_buffer.put(
                {
                    "image": None,
                    "frame_idx": None,
                    "video_idx": None,
                    "orig_size": None,
                }
            )
"""
M("c13-marker-only-on-success", "C13", "VideoReader: marker only on success (finally -> else)", PR, VR_FINALLY, VR_FINALLY.replace("        finally:\n", "        else:\n"))
M("c13-marker-twice-on-error", "C13", "VideoReader: marker also put in except", PR, VR_FINALLY,
  VR_FINALLY.replace('Stopping video reader.\\n{e}")\n', 'Stopping video reader.\\n{e}")\n            self.frame_buffer.put({"image": None, "frame_idx": None, "video_idx": None, "orig_size": None})\n'))
M("c13-range-end-plus-1", "C13", "VideoReader: range(start, end+1) clipped to video length", PR,
  "            for idx in range(self.start_idx, self.end_idx):\n                img = self.video[idx]",
  "            for idx in range(self.start_idx, min(self.end_idx + 1, self.video.shape[0])):\n                img = self.video[idx]")
M("c13-consumer-drops-partial", "C13", "consumer drops the partial last batch", PD,
  "            if imgs:\n                # TODO: all preprocessing should be moved into InferenceModels to be exportable.",
  "            if imgs and (len(imgs) == batch_size or not done):\n                # TODO: all preprocessing should be moved into InferenceModels to be exportable.")
M("c13-fidx-before-sentinel", "C13", "consumer: frame_idx list misaligned (appended from previous frame)", PD,
  "                fidxs.append(frame[\"frame_idx\"])\n", "                fidxs.append(frame[\"frame_idx\"] if len(fidxs) != 2 else fidxs[-1])\n")
M("c13-labels-skip-when-full", "C13", "LabelsReader drops a frame when the queue is full (put_nowait)", PR,
  "                self.frame_buffer.put(sample)\n", "                try:\n                    self.frame_buffer.put_nowait(sample)\n                except Exception:\n                    pass\n")
M("c13-video-idx-start", "C13", "VideoReader reports idx relative to start", PR,
  "\"frame_idx\": torch.tensor(idx, dtype=torch.int32),\n                        \"video_idx\": torch.tensor(0",
  "\"frame_idx\": torch.tensor(idx - self.start_idx, dtype=torch.int32),\n                        \"video_idx\": torch.tensor(0")
M("c13-get-timeout", "C13", "consumer treats a short get timeout as end of stream", PD,
  "                frame = self.pipeline.frame_buffer.get()\n                if frame[\"image\"] is None:",
  "                try:\n                    frame = self.pipeline.frame_buffer.get(timeout=0.0004)\n                except Exception:\n                    done = True\n                    break\n                if frame[\"image\"] is None:")

M("c16-tpfp-swap", "C16", "tp/fp cumsum swapped", EV, "            tp = np.cumsum(match_scores >= match_score_threshold)\n            fp = np.cumsum(match_scores < match_score_threshold)\n",
  "            fp = np.cumsum(match_scores >= match_score_threshold)\n            tp = np.cumsum(match_scores < match_score_threshold)\n")
M("c16-npig-no-fn", "C16", "npig without false negatives", EV, "        npig = len(self.positive_pairs) + len(\n            self.false_negatives\n        )", "        npig = len(self.positive_pairs) + 0 * len(\n            self.false_negatives\n        )")
M("c16-recall-side-right", "C16", "recall threshold searchsorted side=right", EV, 'rc_inds = np.searchsorted(rc, recall_thresholds, side="left")', 'rc_inds = np.searchsorted(rc, recall_thresholds, side="right")')
M("c16-pck-le", "C16", "PCK uses a fixed pixel threshold of the first entry for all", EV, "pcks = np.expand_dims(dists, -1) < np.reshape(thresholds, (1, 1, -1))", "pcks = np.expand_dims(dists, -1) < np.reshape(thresholds[::-1], (1, 1, -1))")
M("c16-nan-dist-zero", "C16", "PCK: missing nodes counted as hits", EV, "        dists[np.isnan(dists)] = np.inf\n        pcks", "        dists[np.isnan(dists)] = 0\n        pcks")
M("c16-envelope-direction", "C16", "precision envelope forward (makes precision increasing)", EV,
  "            for i in range(len(pr) - 1, 0, -1):\n                if pr[i] > pr[i - 1]:\n                    pr[i - 1] = pr[i]\n",
  "            for i in range(1, len(pr)):\n                if pr[i] < pr[i - 1]:\n                    pr[i] = pr[i - 1] * 1.05\n")
M("c16-moks-over-gt", "C16", "mOKS uses sum over pairs / (pairs+1)", EV, '        return {"mOKS": pair_oks.mean()}', '        return {"mOKS": pair_oks.sum() / (len(pair_oks) + len(self.false_negatives) * 0 + (1 if len(pair_oks) > 7 else 0))}')

TRN = "sleap_nn/train.py"
M("c20-revert-auglist", "C20", "revert aug list fix (scale resets rotation)", TRN, "            elif g == \"scale\":\n                aug_config.geometric.scale = (0.9, 1.1)\n", "            elif g == \"scale\":\n                aug_config.geometric.scale = (0.9, 1.1)\n                aug_config.geometric.rotation = 0\n")
M("c20-revert-presets", "C20", "revert preset conversion for convnext_small", TRN, "ConvNextConfig(**asdict(ConvNextSmallConfig()))", "ConvNextSmallConfig()")
M("c20-arg-dropped", "C20", "get_trainer_config drops wandb_group_name", TRN, "            group=wandb_group_name,\n", "")
M("c20-arg-misrouted", "C20", "val loader gets num_workers=0", TRN, "    val_dataloader_cfg = DataLoaderConfig(\n        batch_size=batch_size, shuffle=False, num_workers=num_workers\n    )", "    val_dataloader_cfg = DataLoaderConfig(\n        batch_size=batch_size, shuffle=False, num_workers=0\n    )")
M("c20-max-height-swapped", "C20", "max_height/max_width swapped in preprocessing", TRN, "        max_height=max_height,\n        max_width=max_width,\n        scale=scale,", "        max_height=max_width,\n        max_width=max_height,\n        scale=scale,")
M("c20-validator-loosened", "C20", "validate_proportion accepts up to 1.5", "sleap_nn/config/data_config.py", "    if not (0.0 <= value <= 1.0):", "    if not (0.0 <= value <= 1.5):")
M("c20-head-dict-sigma", "C20", "bottomup dict head: pafs built from confmaps kwargs' stride", TRN, "                pafs=PAFConfig(**head_cfg[\"bottomup\"][\"pafs\"]),", "                pafs=PAFConfig(**{**head_cfg[\"bottomup\"][\"pafs\"], \"output_stride\": head_cfg[\"bottomup\"][\"confmaps\"].get(\"output_stride\", 1)}),")
M("c20-intensity-else", "C20", "intensity list: contrast also enables brightness", TRN, "            elif i == \"contrast\":\n                aug_config.intensity.contrast_p = 1.0\n", "            elif i == \"contrast\":\n                aug_config.intensity.contrast_p = 1.0\n                aug_config.intensity.brightness_p = 1.0\n")
M("c20-oneof-skipped", "C20", "oneof check only triggers for 3 set attributes", "sleap_nn/config/utils.py", "        if len(attribs_with_value) > 1:\n            # Raise error if more than one attribute is set.\n            message = \"Only one attribute of this class can be set (not None).\"\n            logger.error(message)\n            raise ValueError(message)\n\n        if len(attribs_with_value) == 0 and must_be_set:", "        if len(attribs_with_value) > 2:\n            message = \"Only one attribute of this class can be set (not None).\"\n            logger.error(message)\n            raise ValueError(message)\n\n        if len(attribs_with_value) == 0 and must_be_set:")
M("c20-verify-rounds", "C20", "verify_training_cfg rounds odd max_height up", "sleap_nn/config/training_job_config.py", "    config = OmegaConf.merge(schema, cfg)\n", "    config = OmegaConf.merge(schema, cfg)\n    if config.data_config.preprocessing.max_height is not None:\n        config.data_config.preprocessing.max_height += config.data_config.preprocessing.max_height % 2\n")

MDL = "sleap_nn/architectures/model.py"
ED = "sleap_nn/architectures/encoder_decoder.py"
M("c14-revert-head-sizing", "C14", "heads sized for the block at the minimum head stride (pre-fix behaviour of single heads above the stem stride)", MDL, "            block = self.backbone.dec.decoder_stack[strides.index(head.output_stride)]\n", "            block = self.backbone.dec.decoder_stack[strides.index(head.output_stride) if head.output_stride != min_output_stride else len(strides) - 1]\n")
M("c14-exponent-off", "C14", "second bottom-up head sized for the neighbouring decoder block", MDL, "            block = self.backbone.dec.decoder_stack[strides.index(head.output_stride)]\n", "            block = self.backbone.dec.decoder_stack[strides.index(head.output_stride) + (1 if len(self.heads) > 1 and head is self.heads[1] and strides.index(head.output_stride) < len(strides) - 1 else 0)]\n")
M("c14-forward-index", "C14", "forward picks the last decoder output for every head", MDL, "            idx = backbone_outputs[\"strides\"].index(head.output_stride)\n", "            idx = len(backbone_outputs[\"strides\"]) - 1\n")
M("c14-shape-cache", "C14", "Model.forward memoises backbone outputs by input shape in eval mode", MDL, "        backbone_outputs = self.backbone(x)\n", "        key = tuple(x.shape)\n        if not self.training and getattr(self, \"_vf_cache\", (None, None))[0] == key:\n            backbone_outputs = self._vf_cache[1]\n        else:\n            backbone_outputs = self.backbone(x)\n            self._vf_cache = (key, backbone_outputs)\n")
M("c14-dropout-eval", "C14", "head adds noise depending on batch statistics (batch-dependent normalisation)", MDL, "            outputs[head.name] = head_layer(backbone_outputs[\"outputs\"][idx])\n", "            feat = backbone_outputs[\"outputs\"][idx]\n            if feat.shape[0] > 1 and feat.shape[1] > 8:\n                feat = feat - feat.mean(dim=0, keepdim=True) * 1e-2\n            outputs[head.name] = head_layer(feat)\n")

RS = "sleap_nn/data/resizing.py"
CDS = "sleap_nn/data/custom_datasets.py"
IC = "sleap_nn/data/instance_cropping.py"
ICN = "sleap_nn/data/instance_centroids.py"
M("c04-effscale-dropped-centered", "C04", "CenteredInstanceDataset: instances not scaled by eff_scale", CDS, "            instances = instances * eff_scale\n\n            # resize image\n            image, instances = apply_resizer(", "            instances = instances * 1.0\n\n            # resize image\n            image, instances = apply_resizer(")
M("c04-scale-twice", "C04", "apply_resizer scales keypoints twice when scale<1", RS, "        instances = instances * scale\n    return image, instances", "        instances = instances * scale * (scale if scale < 0.4 else 1.0)\n    return image, instances")
M("c04-pad-top-left", "C04", "sizematcher pads top/left", RS, "        image = F.pad(\n            image,\n            (0, pad_width, 0, pad_height),\n            mode=\"constant\",\n        ).to(torch.float32)\n\n        return image, eff_scale_ratio", "        image = F.pad(\n            image,\n            (pad_width, 0, pad_height, 0),\n            mode=\"constant\",\n        ).to(torch.float32)\n\n        return image, eff_scale_ratio")
M("c04-ratio-swapped", "C04", "sizematcher picks the larger ratio", RS, "        if hratio > wratio:\n            eff_scale_ratio = wratio", "        if hratio < wratio:\n            eff_scale_ratio = wratio")
M("c04-bbox-not-subtracted", "C04", "generate_crops subtracts bbox centre-ish point", IC, "    point = instance_bbox[0][0]\n    center_instance = (instance - point).unsqueeze(0)", "    point = instance_bbox[0][0] + 0.5\n    point = point.floor() + 2\n    center_instance = (instance - point).unsqueeze(0)")
M("c04-recrop-centre", "C04", "CenteredInstanceDataset re-crops about the image centre", CDS, "            make_centered_bboxes(\n                sample[\"centroid\"][0], self.crop_hw[0], self.crop_hw[1]\n            ),", "            make_centered_bboxes(\n                torch.tensor(sample[\"instance_image\"].shape[-2:][::-1], dtype=torch.float32) / 2 - 0.5 + 3.0, self.crop_hw[0], self.crop_hw[1]\n            ),")
M("c04-aug-image-only", "C04", "BottomUpDataset: geometric aug result keypoints discarded", CDS, "                sample[\"image\"], sample[\"instances\"] = apply_geometric_augmentation(\n                    sample[\"image\"],\n                    sample[\"instances\"],\n                    **self.data_config.augmentation_config.geometric,\n                )\n\n        img_hw = sample[\"image\"].shape[-2:]\n\n        # Generate confidence maps\n        confidence_maps = generate_multiconfmaps(\n            sample[\"instances\"],",
  "                sample[\"image\"], _ = apply_geometric_augmentation(\n                    sample[\"image\"],\n                    sample[\"instances\"],\n                    **self.data_config.augmentation_config.geometric,\n                )\n\n        img_hw = sample[\"image\"].shape[-2:]\n\n        # Generate confidence maps\n        confidence_maps = generate_multiconfmaps(\n            sample[\"instances\"],")
M("c04-pad-stride-ceil", "C04", "find_padding_for_stride pads a full stride when divisible", RS, "    pad_height = (max_stride - (image_height % max_stride)) % max_stride\n", "    pad_height = (max_stride - (image_height % max_stride)) % (max_stride + (1 if max_stride == 32 else 0))\n")
M("c11-revert-clone", "C11", "revert generate_centroids clone", ICN, "centroids = points[..., anchor_ind, :].clone()", "centroids = points[..., anchor_ind, :]")
M("c04-offsets-dropped", "C04", "make_centered_bboxes corner offsets dropped", IC, "    return corners + offset\n", "    return corners\n")

PRV = "sleap_nn/data/providers.py"
M("c11-empty-filter", "C11", "centered: empty-instance filter dropped", CDS, "                if not inst.is_empty:  # filter all NaN instances.\n                    instance_idx_list.append((lf_idx, inst_idx))", "                if True:  # filter all NaN instances.\n                    instance_idx_list.append((lf_idx, inst_idx))")
M("c11-inplace-confmap-scale", "C11", "SingleInstanceDataset scales cached instances in place before maps", CDS, "        confidence_maps = generate_confmaps(\n            sample[\"instances\"],\n            img_hw=img_hw,\n            sigma=self.confmap_head_config.sigma,\n            output_stride=self.confmap_head_config.output_stride,\n        )\n\n        sample[\"confidence_maps\"] = confidence_maps\n\n        return sample\n\n\nclass _RepeatSampler",
  "        sample[\"instances\"] += 0.25\n        confidence_maps = generate_confmaps(\n            sample[\"instances\"],\n            img_hw=img_hw,\n            sigma=self.confmap_head_config.sigma,\n            output_stride=self.confmap_head_config.output_stride,\n        )\n\n        sample[\"confidence_maps\"] = confidence_maps\n\n        return sample\n\n\nclass _RepeatSampler")
M("c11-pad-dropped", "C11", "process_lf pads with zeros instead of NaN", PRV, "        nans = torch.full(\n            (1, np.abs(max_instances - num_instances), nodes, 2), torch.nan\n        )\n        instances = torch.cat(\n            [instances, nans], dim=1\n        )  # (n_samples, max_instances, num_nodes, 2)\n\n    ex = {", "        nans = torch.full(\n            (1, np.abs(max_instances - num_instances), nodes, 2), 0.0\n        )\n        instances = torch.cat(\n            [instances, nans], dim=1\n        )  # (n_samples, max_instances, num_nodes, 2)\n\n    ex = {")
M("c11-crop-size-inplace", "C11", "generate_confmaps writes NaN->0 into its input", CM, "    if instance.ndim != 3:\n        instance = instance.view(instance.shape[0], -1, 2)", "    instance.nan_to_num_(nan=-1000.0)\n    if instance.ndim != 3:\n        instance = instance.view(instance.shape[0], -1, 2)")
M("c11-nan-to-zero", "C11", "process_lf replaces NaN keypoints by 0", PRV, "    instances = torch.from_numpy(instances.astype(\"float32\"))\n\n    num_instances, nodes = instances.shape[1:3]\n    img_height", "    instances = torch.nan_to_num(torch.from_numpy(instances.astype(\"float32\")), nan=0.0)\n\n    num_instances, nodes = instances.shape[1:3]\n    img_height")
MUTANTS.append({"id": "c11-user-filter-ignored-both", "property": "C11", "desc": "user-instance filter disabled in process_lf and in BaseDataset._get_lf_idx_list (two sites)", "edits": [
    {"file": PRV, "old": "    if user_instances_only:\n        if lf.user_instances is not None and len(lf.user_instances) > 0:\n            lf.instances = lf.user_instances\n\n    image = np.transpose", "new": "    if False:\n        if lf.user_instances is not None and len(lf.user_instances) > 0:\n            lf.instances = lf.user_instances\n\n    image = np.transpose", "count": 1},
    {"file": CDS, "old": "            if self.data_config.user_instances_only:\n                if lf.user_instances is not None and len(lf.user_instances) > 0:\n                    lf.instances = lf.user_instances\n            is_empty = True", "new": "            if False:\n                if lf.user_instances is not None and len(lf.user_instances) > 0:\n                    lf.instances = lf.user_instances\n            is_empty = True", "count": 1}]})

SI = "sleap_nn/inference/single_instance.py"
TD = "sleap_nn/inference/topdown.py"
M("c02-revert-labels-preprocess", "C02", "revert LabelsReader preprocess fix (single instance)", PD, "            # frames are resized to the input scale and padded to the max stride here,\n            # exactly as for the VideoReader (the inference model does not do it).\n            self.preprocess = True\n            self.preprocess_config = {\n                \"batch_size\": self.batch_size,\n                \"scale\": self.confmap_config", "            self.preprocess = False\n            self.preprocess_config = {\n                \"batch_size\": self.batch_size,\n                \"scale\": self.confmap_config")
M("c02-stride-dropped", "C02", "single: peaks*stride dropped when refinement is on", SI, "        peak_points = peak_points * self.output_stride\n", "        peak_points = peak_points * (self.output_stride if self.refinement is None else 1)\n")
M("c02-effscale-twice", "C02", "FindInstancePeaks divides bbox by eff_scale twice", TD, "        inputs[\"instance_bbox\"] = inputs[\"instance_bbox\"] / self.input_scale\n", "        inputs[\"instance_bbox\"] = inputs[\"instance_bbox\"] / self.input_scale\n        inputs[\"instance_bbox\"] = inputs[\"instance_bbox\"] / (inputs[\"eff_scale\"].unsqueeze(dim=1).unsqueeze(dim=2).unsqueeze(dim=3))\n")

M("c02-input-scale-centroid", "C02", "CentroidCrop divides by input_scale twice", TD, "        refined_peaks = refined_peaks / self.input_scale\n", "        refined_peaks = refined_peaks / self.input_scale / (self.input_scale if self.output_stride == 4 else 1.0)\n")
M("c02-bbox-offset", "C02", "make_centered_bboxes offsets dropped", IC, "    return corners + offset\n", "    return corners\n")
M("c02-effscales-shared", "C02", "eff_scales of the batch replaced by the first frame's", PD, "                eff_scales = torch.tensor(eff_scales, dtype=torch.float32)\n", "                eff_scales = torch.tensor([eff_scales[0]] * len(eff_scales), dtype=torch.float32)\n")
M("c02-sizematch-xy", "C02", "_predict_generator passes max_width as max_height", PD, "                    self.preprocess_config[\"max_height\"],\n                    self.preprocess_config[\"max_width\"],\n                )\n                if self.instances_key:", "                    self.preprocess_config[\"max_width\"],\n                    self.preprocess_config[\"max_height\"],\n                )\n                if self.instances_key:")

BU = "sleap_nn/inference/bottomup.py"
M("c03-revert-labels-preprocess", "C03", "revert LabelsReader preprocess fix (bottom-up)", PD, "            # frames are resized to the input scale and padded to the max stride here,\n            # exactly as for the VideoReader (the inference model does not do it).\n            self.preprocess = True\n            self.preprocess_config = {\n                \"batch_size\": self.batch_size,\n                \"scale\": self.bottomup_config", "            self.preprocess = False\n            self.preprocess_config = {\n                \"batch_size\": self.batch_size,\n                \"scale\": self.bottomup_config")
M("c03-cms-stride-dropped", "C03", "peaks * cms stride dropped", BU, "        peaks = peaks * self.cms_output_stride  # (n_centroids, 2)\n", "        peaks = peaks * 1  # (n_centroids, 2)\n")
M("c03-paf-stride-cms", "C03", "PAF scorer built with the cms stride", PG, "            pafs_stride=config.pafs.output_stride,\n", "            pafs_stride=config.confmaps.output_stride,\n")
M("c03-channel-swap", "C03", "line subs address (2k+1, 2k)", PG, "    line_subs_first = line_subs * multiplier\n    line_subs_second = line_subs * multiplier + adder\n", "    line_subs_second = line_subs * multiplier\n    line_subs_first = line_subs * multiplier + adder\n")
M("c03-permute", "C03", "pafs permuted (0,3,2,1)", BU, "        pafs = output[\"PartAffinityFieldsHead\"].permute(0, 2, 3, 1)\n", "        pafs = output[\"PartAffinityFieldsHead\"].permute(0, 3, 2, 1)\n")
M("c03-input-scale-twice", "C03", "input scale applied twice for second+ sample", BU, "            predicted_instances_adjusted.append(\n                p / inputs[\"eff_scale\"][idx].to(p.device)\n            )", "            predicted_instances_adjusted.append(\n                p / inputs[\"eff_scale\"][idx].to(p.device) / (self.input_scale if idx > 0 else 1.0)\n            )")
M("c03-rowcol-swap", "C03", "line subs row/col not swapped", PG, "    XY = XY[:, [1, 0], :]  # dim 1 is [row, col]\n", "    XY = XY[:, [0, 1], :]  # dim 1 is [row, col]\n")
M("c03-toposort-bypass", "C03", "edges grouped in listing order", PG, "        self.sorted_edge_inds = toposort_edges(self.edge_types)\n", "        self.sorted_edge_inds = tuple(range(len(self.edge_types)))\n")

M("c12-topk-position", "C12", "CentroidCrop keeps the first k peaks instead of the top-k values", TD, "                    current_peak_vals, indices = torch.topk(\n                        current_peak_vals, max_instances\n                    )\n                    current_peaks = current_peaks[indices]", "                    indices = torch.arange(max_instances)\n                    current_peak_vals = current_peak_vals[indices]\n                    current_peaks = current_peaks[indices]")
M("c12-crop-index", "C12", "find_local_peaks crop index sample+channel", PF, "box_sample_inds = (peak_sample_inds * channels) + peak_channel_inds", "box_sample_inds = peak_sample_inds + peak_channel_inds")
M("c12-fidx-misaligned", "C12", "frame_idx of a batch sorted", PD, "                fidxs = torch.tensor(fidxs, dtype=torch.int32)\n", "                fidxs = torch.tensor(sorted(fidxs), dtype=torch.int32)\n")
M("c12-vidx-first", "C12", "video_idx of the batch taken from the first frame", PD, "                vidxs = torch.tensor(vidxs, dtype=torch.int32)\n", "                vidxs = torch.tensor([vidxs[0]] * len(vidxs), dtype=torch.int32)\n")
M("c12-effscale-shared", "C12", "eff_scale of the batch replaced by its max", PD, "                eff_scales = torch.tensor(eff_scales, dtype=torch.float32)\n", "                eff_scales = torch.tensor([max(eff_scales)] * len(eff_scales), dtype=torch.float32)\n")
M("c12-empty-not-skipped", "C12", "_generate_crops zips frames with peaks misaligned after an empty frame", TD, "                if torch.all(torch.isnan(centroid)):\n                    continue\n", "                if torch.all(torch.isnan(centroid)):\n                    break\n")
M("c12-bu-split", "C12", "bottom-up peaks split by sample uses <= b", BU, "            cms_peaks.append(peaks[sample_inds == b])\n", "            cms_peaks.append(peaks[sample_inds <= b] if b == 1 else peaks[sample_inds == b])\n")

GDC = "sleap_nn/data/get_data_chunks.py"
SDS = "sleap_nn/data/streaming_datasets.py"
M("c18-centroids-not-scaled", "C18", "centroid chunks: centroids not scaled", GDC, "    sample[\"image\"], sample[\"centroids\"] = apply_resizer(\n        sample[\"image\"], sample[\"centroids\"], scale=scale\n    )", "    sample[\"image\"], _ = apply_resizer(\n        sample[\"image\"], sample[\"centroids\"], scale=scale\n    )")
M("c18-chunk-maxsize", "C18", "bottomup chunks ignore config max size", GDC, "    sample[\"image\"], eff_scale = apply_sizematcher(\n        sample[\"image\"],\n        max_height=max_height if max_height is not None else max_hw[0],\n        max_width=max_width if max_width is not None else max_hw[1],\n    )\n    sample[\"instances\"] = sample[\"instances\"] * eff_scale\n\n    # resize the image", "    sample[\"image\"], eff_scale = apply_sizematcher(\n        sample[\"image\"],\n        max_height=max_hw[0],\n        max_width=max_hw[1],\n    )\n    sample[\"instances\"] = sample[\"instances\"] * eff_scale\n\n    # resize the image")
M("c18-stream-sigma", "C18", "bottomup streaming uses confmap sigma for pafs", SDS, "            sigma=self.pafs_head.sigma,\n", "            sigma=self.confmap_head.sigma,\n")
M("c18-effscale-single", "C18", "single-instance chunks forget eff_scale on instances", GDC, "    sample[\"instances\"] = sample[\"instances\"] * eff_scale\n\n    # resize image\n    sample[\"image\"], sample[\"instances\"] = apply_resizer(\n        sample[\"image\"], sample[\"instances\"], scale=scale\n    )", "    sample[\"instances\"] = sample[\"instances\"] * 1.0\n\n    # resize image\n    sample[\"image\"], sample[\"instances\"] = apply_resizer(\n        sample[\"image\"], sample[\"instances\"], scale=scale\n    )")
M("c18-stream-crop", "C18", "centered streaming re-crops with crop_hw swapped h/w and +1", SDS, "            make_centered_bboxes(ex[\"centroid\"][0], self.crop_hw[0], self.crop_hw[1]), 0\n", "            make_centered_bboxes(ex[\"centroid\"][0] + 1.0, self.crop_hw[0], self.crop_hw[1]), 0\n")
M("c18-datapipe-resizer", "C18", "Resizer datapipe scales instances by scale**2", RS, "                ex[self.instances_key] = ex[self.instances_key] * self.scale\n", "                ex[self.instances_key] = ex[self.instances_key] * self.scale * self.scale\n")

MT = "sleap_nn/training/model_trainer.py"
LM = "sleap_nn/training/lightning_modules.py"
M("c19-initial-unmasked", "C19", "initial_config.yaml saved with the live config", MT, "            self._save_config(f\"{self.dir_path}/initial_config.yaml\")\n", "            OmegaConf.save(config=self.config, f=f\"{self.dir_path}/initial_config.yaml\")\n")
M("c19-chunks-unmasked", "C19", "chunks config saved with the live config", MT, "                self._save_config(save_path.as_posix())\n", "                OmegaConf.save(config=self.config, f=save_path.as_posix())\n")
M("c19-mem-blank-only-wandb", "C19", "in-memory key blanked only with wandb (ckpt leak)", MT, "        if OmegaConf.select(self.config, \"trainer_config.wandb.api_key\") is not None:\n            self.config.trainer_config.wandb.api_key = \"\"\n\n        # save the configs", "        if self.config.trainer_config.use_wandb and OmegaConf.select(self.config, \"trainer_config.wandb.api_key\") is not None:\n            self.config.trainer_config.wandb.api_key = \"\"\n\n        # save the configs")
M("c19-new-artifact", "C19", "new artifact (hparams dump) written with the live config before masking", MT, "        # set seed\n        torch.manual_seed(self.seed)\n", "        # set seed\n        torch.manual_seed(self.seed)\n        OmegaConf.save(config=self.config.trainer_config, f=f\"{self.dir_path}/trainer_hparams.yaml\")\n")
M("c19-run-id-revert", "C19", "revert run_id schema field", "sleap_nn/config/trainer_config.py", "    group: Optional[str] = None\n    run_id: Optional[str] = None\n", "    group: Optional[str] = None\n")
M("c19-chunks-not-deleted", "C19", "val chunks not deleted", MT, "                if (self.val_np_chunks_path).exists():\n                    shutil.rmtree(", "                if (self.val_np_chunks_path).exists() and False:\n                    shutil.rmtree(")
M("c19-final-config-stale", "C19", "final training_config.yaml not re-saved after training", MT, "            # save the config with wandb runid\n            self._save_config(f\"{self.dir_path}/training_config.yaml\")\n", "            # save the config with wandb runid\n            pass\n")
M("c19-model-config-copy", "C19", "TrainingModel keeps a defensive deep copy of the config (trainer's later blanking does not reach checkpoints)", LM, "        super().__init__()\n        self.config = config\n        self.skeletons = skeletons\n", "        super().__init__()\n        import copy\n\n        self.config = copy.deepcopy(config)\n        self.skeletons = skeletons\n")
M("c12-bu-cap-ascending", "C12", "bottom-up max_instances keeps the lowest-scoring instances", PD, "                    predicted_instances = sorted(\n                        predicted_instances, key=lambda x: x.score, reverse=True\n                    )", "                    predicted_instances = sorted(\n                        predicted_instances, key=lambda x: x.score, reverse=False\n                    )")
M("c12-td-bbox-labels", "C12", "top-down labelled frames add the bbox bottom-right corner", PD, "                pred_instances = pred_instances + bbox.squeeze(axis=0)[0, :]\n", "                pred_instances = pred_instances + bbox.squeeze(axis=0)[2, :]\n")
M("c04-gray-mirrored", "C04", "grayscale branch of BaseDataset._fill_cache mirrors the image", CDS, "            else:\n                sample[\"image\"] = convert_to_grayscale(sample[\"image\"])\n\n            # size matcher\n            sample[\"image\"], eff_scale = apply_sizematcher(\n                sample[\"image\"],\n                max_height=self.max_hw[0],\n                max_width=self.max_hw[1],\n            )\n            sample[\"instances\"] = sample[\"instances\"] * eff_scale\n\n            # resize image\n            sample[\"image\"], sample[\"instances\"] = apply_resizer(\n                sample[\"image\"],\n                sample[\"instances\"],\n                scale=self.scale,\n            )\n\n            # Pad the image (if needed) according max stride\n            sample[\"image\"] = apply_pad_to_stride(\n                sample[\"image\"], max_stride=self.max_stride\n            )\n\n            if self.np_chunks:\n                sample[\"image\"] = self.transform_to_pil(sample[\"image\"].squeeze(dim=0))\n                for k, v in sample.items():\n                    if k != \"image\" and isinstance(v, torch.Tensor):\n                        sample[k] = v.numpy()\n                f_name = f\"{self.np_chunks_path}/sample_{idx}.npz\"\n                np.savez_compressed(f_name, **sample)\n                self.cache[idx] = f_name\n\n            else:\n                self.cache[idx] = sample.copy()\n\n        for video in self.labels.videos:\n            video.close()\n\n    def _get_video_idx",
  "            else:\n                sample[\"image\"] = convert_to_grayscale(sample[\"image\"]).flip(-1)\n\n            # size matcher\n            sample[\"image\"], eff_scale = apply_sizematcher(\n                sample[\"image\"],\n                max_height=self.max_hw[0],\n                max_width=self.max_hw[1],\n            )\n            sample[\"instances\"] = sample[\"instances\"] * eff_scale\n\n            # resize image\n            sample[\"image\"], sample[\"instances\"] = apply_resizer(\n                sample[\"image\"],\n                sample[\"instances\"],\n                scale=self.scale,\n            )\n\n            # Pad the image (if needed) according max stride\n            sample[\"image\"] = apply_pad_to_stride(\n                sample[\"image\"], max_stride=self.max_stride\n            )\n\n            if self.np_chunks:\n                sample[\"image\"] = self.transform_to_pil(sample[\"image\"].squeeze(dim=0))\n                for k, v in sample.items():\n                    if k != \"image\" and isinstance(v, torch.Tensor):\n                        sample[k] = v.numpy()\n                f_name = f\"{self.np_chunks_path}/sample_{idx}.npz\"\n                np.savez_compressed(f_name, **sample)\n                self.cache[idx] = f_name\n\n            else:\n                self.cache[idx] = sample.copy()\n\n        for video in self.labels.videos:\n            video.close()\n\n    def _get_video_idx")
