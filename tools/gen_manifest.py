#!/venv/bin/python
"""Regenerate MANIFEST.json from the property modules (keeps it schema-valid)."""
import importlib
import json
import os
import sys

HERE = os.path.dirname(os.path.dirname(os.path.abspath(__file__)))
sys.path.insert(0, HERE)
ALL = [f"C{n:02d}" for n in range(1, 21)]
NOT_APPLICABLE = {}  # pid -> reason (kept current by hand)

checks, na = [], []
for pid in ALL:
    path = os.path.join(HERE, "vf", "props", pid.lower() + ".py")
    if not os.path.exists(path):
        na.append({"property_id": pid, "reason": NOT_APPLICABLE.get(pid, "check not built yet in this session (planned in DESIGN.md §4); not claimed until its monitor exists")})
        continue
    m = importlib.import_module(f"vf.props.{pid.lower()}")
    checks.append({
        "property_id": pid,
        "quick_cmd": f"./check {pid} --tier quick",
        "thorough_cmd": f"./check {pid} --tier thorough",
        "evidence_file": f"evidence/{pid}.json",
        "replay_cmd_template": f"./check {pid} --replay {{path}}",
        "engine": "vf",
        "level_claimed": {"category": m.LEVEL, "text": m.LEVEL_TEXT, "design_ref": f"DESIGN.md §4 {pid}"},
        "level_note": m.LEVEL_NOTE,
        "technique": m.TECHNIQUE,
    })
man = {
    "version": 1,
    "setup_cmd": "./setup.sh",
    "hooks": {
        "guard": "SLEAP_NN_VERIF",
        "enable": "no source hooks: monitors attach from outside (rebinding probes, sys.monitoring, audit hooks); ./check exports SLEAP_NN_VERIF=1 and imports /repo's working tree through the editable install",
        "baseline_off_cmd": "cd /repo && /venv/bin/python -m pytest -ra -q -p no:cacheprovider --timeout=900 --continue-on-collection-errors",
        "source_commits": [],
        "add_only": True,
    },
    "engines": [{"name": "vf", "path": "vf/", "serves_properties": [c["property_id"] for c in checks],
                 "kind_free_text": "runtime monitors: boundary probes with float64 reference models, history checkers, schedule perturbation via sys.monitoring, audit-hook file-system monitor; sharded workloads over 16 cores"}],
    "checks": checks,
    "not_applicable": na,
    "notes": "Exit 0 held / 1 VIOLATION / 2 INCONCLUSIVE / 3 harness error. Known findings: known_findings.json (keyed by mechanism).",
}
try:
    import jsonschema
    jsonschema.validate(man, json.load(open(os.path.join(HERE, "schemas", "MANIFEST.schema.json"))))
except ImportError:
    pass
json.dump(man, open(os.path.join(HERE, "MANIFEST.json"), "w"), indent=1)
print("MANIFEST.json:", len(checks), "checks,", len(na), "not claimed")
