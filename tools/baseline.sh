#!/bin/bash
# Run the pinned baseline (guard off) on a tree (default /repo) and compare with BASELINE.json's stable_pass list.
TREE="${1:-/repo}"
J=$(mktemp /tmp/vf-junit-XXXX.xml)
cd "$TREE" && env -u SLEAP_NN_VERIF PYTHONPATH="$TREE" /venv/bin/python -m pytest -ra -q -p no:cacheprovider --timeout=900 --continue-on-collection-errors --junitxml=$J >/dev/null 2>&1
/venv/bin/python - "$J" <<'PY'
import json,sys,xml.etree.ElementTree as ET
stable=set(json.load(open('/root/.vp/BASELINE.json'))['stable_pass'])
passed=set()
for tc in ET.parse(sys.argv[1]).getroot().iter('testcase'):
    if not any(ch.tag in('failure','error','skipped') for ch in tc):
        passed.add(f"{tc.get('classname')}::{tc.get('name')}")
missing=sorted(stable-passed)
print(f"baseline: {len(stable&passed)}/{len(stable)} stable tests pass; missing: {missing[:10]}")
sys.exit(1 if missing else 0)
PY
rc=$?
rm -f $J
cd "$TREE" && git status --short | grep -v '^??' | head -3
exit $rc
