#!/venv/bin/python
"""Cross-check: run every stored seeded change against the quick checks of the *other* properties
anchored in the files it touches (redundancy between monitors). Writes seeded/CROSS.json.

  tools/cross.py [--jobs 3] [names ...]
"""
import argparse
import concurrent.futures as cf
import json
import os
import re
import sys

HERE = os.path.dirname(os.path.dirname(os.path.abspath(__file__)))
sys.path.insert(0, HERE)
from tools import mut  # noqa


def siblings(patch, own, props):
    files = set(re.findall(r"^\+\+\+ b/(\S+)", open(patch).read(), re.M))
    out = []
    for p in props:
        if p["id"] != own and files & set(p["anchors"]["files"]):
            out.append(p["id"])
    return out


def one(job):
    name, patch, pid = job
    wt = mut.make_wt(f"cross-{name}-{pid}")
    try:
        r = mut.sh(["git", "-C", wt, "apply", patch])
        if r.returncode:
            return name, pid, {"error": "apply failed"}
        rc, viol, keys, out = mut.run_check(wt, pid, "quick")
        return name, pid, {"rc": rc, "caught": rc == 1 and bool(viol), "keys": keys}
    finally:
        mut.rm_wt(wt)


def main():
    ap = argparse.ArgumentParser()
    ap.add_argument("names", nargs="*")
    ap.add_argument("--jobs", type=int, default=3)
    a = ap.parse_args()
    props = [json.loads(l) for l in open(os.path.join(HERE, "properties.jsonl"))]
    base = os.path.join(HERE, "seeded")
    jobs = []
    for n in a.names or sorted(os.listdir(base)):
        mp = os.path.join(base, n, "meta.json")
        if not os.path.exists(mp):
            continue
        own = json.load(open(mp))["property"]
        patch = os.path.join(base, n, "patch.diff")
        for pid in siblings(patch, own, props):
            jobs.append((n, patch, pid))
    outp = os.path.join(base, "CROSS.json")
    res = json.load(open(outp)) if os.path.exists(outp) else {}
    with cf.ThreadPoolExecutor(a.jobs) as ex:
        for name, pid, r in ex.map(one, jobs):
            res.setdefault(name, {})[pid] = r
            print(name, pid, json.dumps(r))
            sys.stdout.flush()
            json.dump(res, open(outp, "w"), indent=1, sort_keys=True)


if __name__ == "__main__":
    main()
