"""Run context, verdict discipline, known-findings logic and evidence writer."""
import collections
import hashlib
import json
import os
import re
import sys
import time
import traceback

import numpy as np

VERIF_ROOT = os.environ.get("VERIF_ROOT", os.path.dirname(os.path.dirname(os.path.abspath(__file__))))
REPO_ROOT = os.environ.get("REPO_ROOT", "/repo")
FINDINGS_FILE = os.path.join(VERIF_ROOT, "known_findings.json")
SCHEMA_FILE = os.path.join(VERIF_ROOT, "schemas", "EVIDENCE.schema.json")
MAX_REPLAYS_PER_KEY = 3
MAX_SAMPLES = 6


def jsonable(x):
    """Best-effort conversion of numpy / torch values to plain JSON (NaN -> "nan")."""
    try:
        import torch

        if isinstance(x, torch.Tensor):
            x = x.detach().cpu().numpy()
    except Exception:
        pass
    if isinstance(x, np.ndarray):
        return jsonable(x.tolist())
    if isinstance(x, (np.floating, float)):
        x = float(x)
        if x != x:
            return "nan"
        if x in (float("inf"), float("-inf")):
            return "inf" if x > 0 else "-inf"
        return x
    if isinstance(x, (np.integer,)):
        return int(x)
    if isinstance(x, (np.bool_,)):
        return bool(x)
    if isinstance(x, dict):
        return {str(k): jsonable(v) for k, v in x.items()}
    if isinstance(x, (list, tuple, set, frozenset)):
        return [jsonable(v) for v in x]
    if isinstance(x, (str, int, bool)) or x is None:
        return x
    return repr(x)


def unjson_array(x, dtype=np.float64):
    """Inverse of jsonable for numeric arrays ("nan"/"inf" strings -> floats)."""

    def conv(v):
        if isinstance(v, list):
            return [conv(u) for u in v]
        if v == "nan":
            return float("nan")
        if v == "inf":
            return float("inf")
        if v == "-inf":
            return float("-inf")
        return v

    return np.array(conv(x), dtype=dtype)


def load_findings():
    if not os.path.exists(FINDINGS_FILE):
        return {}
    with open(FINDINGS_FILE) as f:
        data = json.load(f)
    return {e["key"]: e for e in data.get("findings", [])}


class Ctx:
    def __init__(self, pid, tier, seed, shard=0, nshards=1, budget_s=None):
        self.pid = pid
        self.tier = tier
        self.seed = int(seed)
        self.shard = shard
        self.nshards = nshards
        self.t0 = time.time()
        self.budget_s = budget_s
        self.evaluations = 0
        self.nontrivial = set()
        self.samples = []
        self.counters = collections.Counter()
        self.violations = []  # dicts {key, what, replay}
        self.violation_counts = collections.Counter()
        self.known_hits = collections.Counter()
        self.known_examples = {}
        self.inconclusive = []
        self.errors = []
        self.extra = {}
        self.required = {}
        self.findings = load_findings()
        self.stopped_early = False

    # -- randomness -------------------------------------------------------------
    def rng(self, *ids):
        return np.random.default_rng([self.seed] + [int(i) for i in ids])

    # -- bookkeeping ------------------------------------------------------------
    def out_of_time(self):
        if self.budget_s is not None and time.time() - getattr(self, "loop_t0", self.t0) > self.budget_s:
            self.stopped_early = True
            return True
        return False

    def tick(self, sig=None, sample=None):
        """Count one evaluated case; sig != None marks it non-trivial with that signature."""
        self.evaluations += 1
        if sig is not None:
            self.nontrivial.add(hashlib.blake2b(str(sig).encode(), digest_size=8).hexdigest())  # 64-bit digest: millions of signatures stay small
        if sample is not None and len(self.samples) < MAX_SAMPLES:
            self.samples.append(jsonable(sample))

    def count(self, name, n=1):
        self.counters[name] += n

    def require(self, name, minimum=1):
        """Declare a deciding counter: fewer than `minimum` observations => INCONCLUSIVE."""
        self.required[name] = max(minimum, self.required.get(name, 0))

    def note_inconclusive(self, reason):
        if len(self.inconclusive) < 50:
            self.inconclusive.append(str(reason))
        self.counters["inconclusive_cases"] += 1

    # -- violations -------------------------------------------------------------
    def violation(self, key, what, case=None):
        """Report a violation witness classified by mechanism key.

        Keys listed with status "known" in known_findings.json are reported as
        KNOWN-FINDING; everything else (including "fixed" keys) is a VIOLATION.
        """
        key = str(key)
        if not key.startswith(self.pid + ":"):
            key = self.pid + ":" + key
        ent = self.findings.get(key)
        if ent is not None and ent.get("status") == "known":
            self.known_hits[key] += 1
            self.known_examples.setdefault(key, str(what)[:300])
            return False
        self.violation_counts[key] += 1
        if self.violation_counts[key] <= MAX_REPLAYS_PER_KEY:
            path = self._write_replay(key, what, case)
            self.violations.append({"key": key, "what": str(what)[:600], "replay": path})
        return True

    def _write_replay(self, key, what, case):
        d = os.path.join(VERIF_ROOT, "replays", self.pid)
        os.makedirs(d, exist_ok=True)
        slug = re.sub(r"[^A-Za-z0-9_.-]+", "_", key)[:80]
        h = hashlib.sha1(json.dumps(jsonable(case), sort_keys=True).encode()).hexdigest()[:8]
        path = os.path.join(d, f"{slug}-{h}.json")
        with open(path, "w") as f:
            json.dump(
                {"property": self.pid, "key": key, "what": str(what), "seed": self.seed,
                 "tier": self.tier, "case": jsonable(case)}, f, indent=1)
        return os.path.relpath(path, VERIF_ROOT)

    def safe(self, fn, case):
        """Run one case; classify exceptions (through sleap_nn code => violation)."""
        try:
            fn(self, case)
        except Exception as e:  # noqa
            tb = traceback.extract_tb(e.__traceback__)
            repo_frames = [fr for fr in tb if "/sleap_nn/" in fr.filename.replace("\\", "/")]
            if repo_frames:
                fr = repo_frames[-1]
                self.violation(
                    f"exception:{type(e).__name__}@{fr.name}",
                    f"{type(e).__name__}: {e} (in {os.path.basename(fr.filename)}:{fr.name})", case)
            else:
                if len(self.errors) < 10:
                    self.errors.append("".join(traceback.format_exception(e))[-3000:])
                self.counters["harness_errors"] += 1

    # -- (de)serialisation for shards -------------------------------------------
    def dump(self):
        return {
            "evaluations": self.evaluations,
            "nontrivial": sorted(self.nontrivial),
            "samples": self.samples,
            "counters": dict(self.counters),
            "violations": self.violations,
            "violation_counts": dict(self.violation_counts),
            "known_hits": dict(self.known_hits),
            "known_examples": self.known_examples,
            "inconclusive": self.inconclusive,
            "errors": self.errors,
            "extra": jsonable(self.extra),
            "required": self.required,
            "stopped_early": self.stopped_early,
        }

    def merge(self, d):
        self.evaluations += d["evaluations"]
        self.nontrivial.update(d["nontrivial"])
        for s in d["samples"]:
            if len(self.samples) < MAX_SAMPLES:
                self.samples.append(s)
        self.counters.update(d["counters"])
        self.violations.extend(d["violations"])
        self.violation_counts.update(d["violation_counts"])
        self.known_hits.update(d["known_hits"])
        for k, v in d["known_examples"].items():
            self.known_examples.setdefault(k, v)
        self.inconclusive.extend(d["inconclusive"])
        self.errors.extend(d["errors"])
        for k, v in d.get("extra", {}).items():
            if k not in self.extra:
                self.extra[k] = v
            elif isinstance(v, (int, float)) and isinstance(self.extra[k], (int, float)):
                self.extra[k] += v
            elif isinstance(v, list) and isinstance(self.extra[k], list):
                self.extra[k] = (self.extra[k] + v)[:40]
            elif isinstance(v, dict) and isinstance(self.extra[k], dict):
                for kk, vv in v.items():
                    if isinstance(vv, (int, float)) and isinstance(self.extra[k].get(kk), (int, float)):
                        self.extra[k][kk] += vv
                    else:
                        self.extra[k].setdefault(kk, vv)
        for k, v in d.get("required", {}).items():
            self.required[k] = max(v, self.required.get(k, 0))
        self.stopped_early = self.stopped_early or d.get("stopped_early", False)


def finish(ctx, module, write_evidence=True):
    """Print verdict lines, write evidence, return the exit code."""
    level = getattr(module, "LEVEL", "exploration")
    for name, minimum in ctx.required.items():
        if ctx.counters.get(name, 0) < minimum:
            ctx.inconclusive.append(f"deciding monitor '{name}' observed {ctx.counters.get(name, 0)} < {minimum} events")
    min_nt = getattr(module, "MIN_NONTRIVIAL", 2)
    if len(ctx.nontrivial) < min_nt and not ctx.violations:
        ctx.inconclusive.append(f"only {len(ctx.nontrivial)} distinct non-trivial cases (< {min_nt})")
    wall = time.time() - ctx.t0
    n_viol = sum(ctx.violation_counts.values())
    coverage = {
        "evaluations": ctx.evaluations,
        "distinct_nontrivial": len(ctx.nontrivial),
        "rule": getattr(module, "RULE", ""),
        "samples": ctx.samples[:MAX_SAMPLES] or ["<none>"],
        "exhaustive": bool(getattr(module, "EXHAUSTIVE", {}).get(ctx.tier, False)) if isinstance(getattr(module, "EXHAUSTIVE", None), dict) else bool(getattr(module, "EXHAUSTIVE", False)),
        "monitor_counters": dict(sorted(ctx.counters.items())),
        "known_finding_hits": dict(ctx.known_hits),
        "violation_keys": dict(ctx.violation_counts),
        "inconclusive": ctx.inconclusive[:20],
        "stopped_early_on_time_budget": ctx.stopped_early,
        "shards": ctx.nshards,
    }
    coverage.update(jsonable(ctx.extra))
    ev = {
        "property_id": ctx.pid,
        "tier": ctx.tier,
        "seed": ctx.seed,
        "level": level,
        "coverage": coverage,
        "assumptions": list(getattr(module, "ASSUMPTIONS", [])),
        "wall_s": round(wall, 2),
        "violations": n_viol,
    }
    if ctx.errors:
        ev["coverage"]["harness_errors"] = ctx.errors[:3]
    if write_evidence:
        evdir = os.environ.get("VERIF_EVIDENCE_DIR") or os.path.join(VERIF_ROOT, "evidence")
        os.makedirs(evdir, exist_ok=True)
        path = os.path.join(evdir, f"{ctx.pid}.json")
        if ctx.evaluations >= 1 and len(ctx.nontrivial) >= 2:
            try:
                import jsonschema

                with open(SCHEMA_FILE) as f:
                    jsonschema.validate(ev, json.load(f))
            except ImportError:
                pass
            except Exception as e:  # schema failure is a harness error
                ctx.errors.append(f"evidence does not validate: {e}")
        with open(path, "w") as f:
            json.dump(ev, f, indent=1, sort_keys=True)
    for key, n in sorted(ctx.known_hits.items()):
        ent = ctx.findings.get(key, {})
        print(f"KNOWN-FINDING: property={ctx.pid} {key} ({n} witnesses): {ent.get('what', ctx.known_examples.get(key, ''))}")
    code = 0
    if ctx.violations:
        seen, per_key = set(), collections.Counter()
        uniq = []
        for v in ctx.violations:
            if v["replay"] in seen or per_key[v["key"]] >= MAX_REPLAYS_PER_KEY:
                continue
            seen.add(v["replay"])
            per_key[v["key"]] += 1
            uniq.append(v)
        for v in uniq:
            print(f"VIOLATION property={ctx.pid} replay={v['replay']}")
            print(f"  key={v['key']} what={v['what']}")
        for k, n in ctx.violation_counts.items():
            print(f"  total witnesses for {k}: {n}")
        if ctx.errors:
            print(f"  (also {len(ctx.errors)} harness errors, first: {ctx.errors[0][-300:]})")
        code = 1
    elif ctx.errors:
        for e in ctx.errors[:3]:
            print("HARNESS-ERROR:", e, file=sys.stderr)
        print(f"ERROR property={ctx.pid} harness errors: {len(ctx.errors)}")
        code = 3
    elif ctx.inconclusive:
        for r in ctx.inconclusive[:10]:
            print(f"INCONCLUSIVE property={ctx.pid} {r}")
        code = 2
    else:
        print(f"HELD property={ctx.pid} tier={ctx.tier} seed={ctx.seed} evaluations={ctx.evaluations} "
              f"distinct_nontrivial={len(ctx.nontrivial)} wall_s={wall:.1f}")
    top = ", ".join(f"{k}={v}" for k, v in sorted(ctx.counters.items())[:14])
    print(f"  observed: {top}")
    return code
