"""C10 — identity continuity for well-separated animals (inside the property's premise only)."""
import numpy as np

from vf.props import track_common as tc

LEVEL = "exploration"
RULE = ("simulated scenes that satisfy the premise by construction (asserted per history): 1-5 animals whose bodies (>=30 px, bbox area >= 0.6 b^2) stay within "
        "0.25 b of fixed centres >= 3.5 b apart, per-frame step <= 0.05 b, random per-frame detection order, absences covering fewer than `window` non-empty frames, "
        "newcomers only in frames where every previously seen animal is detected (a quarter of the non-IoU scenes: jumps of up to 1.1 b per frame between animals >= 12 b apart; a fifth of the others: the whole group drifts 0.15-0.3 b per frame for 20-45 frames), scores above the new-track threshold; crossed with every tracker configuration "
        "(2 candidate methods x 2 matchers x 4 feature/score pairs (keypoints+oks, centroids+euclid, bboxes+iou, keypoints+euclid) x 2 reductions x window{1,2,3,5} x threshold{0,0.5}). non-trivial = >=2 animals with an order change, "
        "absence or newcomer; distinct by (presence pattern, order pattern hash, configuration)")
ASSUMPTIONS = ["all keypoints visible (the premise is about separation and motion)", "a fresh Tracker per history",
               "absence length counted in non-empty frames (the tracker's fixed window only ages on tracked frames)"]
SHARDS = {"quick": 4, "thorough": 16}
N = {"quick": 5200, "thorough": 900000}
BUDGET = {"quick": 110, "thorough": 600}
TIMEOUT = {"quick": 600, "thorough": 3000}
SELF_SHARDED = True
CONFIGS = list(tc.all_configs())


def gen_scene(r, cfg):
    K = int(r.integers(1, 6))
    F = int(r.integers(3, 21))
    n_nodes = int(r.integers(3, 6))
    b = float(r.uniform(30, 70))
    window = cfg["window_size"]
    pose = r.uniform(0, b, (n_nodes, 2))
    pose[0] = (0, 0)
    pose[1] = (b, b * r.uniform(0.6, 1.0))
    D = 3.5 * b + float(r.uniform(0, 2 * b))
    # fast regime: jumps of up to 1.1 body sizes per frame between animals >= 12 body sizes apart (still "far apart compared with how far they move");
    # not for IoU, which needs overlapping boxes between sightings
    fast = bool(cfg["scoring_method"] != "iou" and r.random() < 0.25)
    if fast:
        D = 12.0 * b + float(r.uniform(0, 4 * b))
    layout = str(r.choice(["grid", "random", "staircase", "row"]))
    if fast and layout == "staircase":
        layout = "row"
    # drift regime: the whole group translates by 0.15-0.3 body sizes per frame for 20-45 frames (net drift of several animal spacings, relative
    # positions unchanged), so a late arrival can appear where another animal was first seen
    drift = bool(not fast and r.random() < 0.2)
    vel = np.zeros(2)
    if drift:
        F = int(r.integers(20, 46))
        ang = float(r.choice([0.0, np.pi / 2, np.pi, 3 * np.pi / 2, r.uniform(0, 2 * np.pi)]))
        vel = r.uniform(0.15, 0.3) * b * np.array([np.cos(ang), np.sin(ang)])
    if layout == "grid":
        cols = int(np.ceil(np.sqrt(K)))
        slots = r.permutation(cols * cols)[:K]
        centres = np.array([[100 + D * (s % cols), 100 + D * (s // cols)] for s in slots], float)
    elif layout == "random":  # rejection sampling with a minimum centre distance
        centres = []
        while len(centres) < K:
            c = r.uniform(100, 100 + D * (K + 1), 2)
            if all(np.hypot(*(c - q)) >= D for q in centres):
                centres.append(c)
        centres = np.array(centres)
    elif layout == "staircase":  # far apart along x, bodies just clear of each other along y
        dy = b * r.uniform(1.0, 1.8)
        centres = np.array([[100 + D * k, 100 + dy * k] for k in r.permutation(K)], float)
        if r.random() < 0.5:
            centres = centres[:, ::-1].copy()
    else:
        centres = np.array([[100 + D * k, 100.0] for k in r.permutation(K)], float)
    amp = 0.25 * b * r.uniform(0.2, 1.0, K)
    step = 0.05 * b
    phase = r.uniform(0, 2 * np.pi, K)
    omega = np.minimum(step / np.maximum(amp, 1e-9), 0.5) * r.uniform(0.3, 1.0, K)
    arrival = np.sort(r.integers(0, max(1, F - 1), K))
    arrival[0] = 0
    p_present = 1.0 if drift else float(r.choice([0.5, 0.8, 1.0]))
    score = 0.9 if cfg["instance_score_threshold"] < 0.5 else 0.8
    seen, gap = [], {}
    frames, presence = [], []
    for f in range(F):
        arriving = [a for a in range(K) if arrival[a] == f]
        present = set()
        if arriving:
            present |= set(seen) | set(arriving)
        else:
            for a in seen:
                if r.random() < p_present:
                    present.add(a)
            if present:
                for a in seen:
                    if a not in present and gap[a] + 1 > window - 1:
                        present.add(a)
        for a in arriving:
            seen.append(a)
        if present:
            for a in seen:
                gap[a] = 0 if a in present else gap.get(a, 0) + 1
        dets = []
        for a in sorted(present):
            c = centres[a] + amp[a] * np.array([np.cos(phase[a] + omega[a] * f), np.sin(phase[a] + omega[a] * f)])
            if fast:
                ang, rad = r.uniform(0, 2 * np.pi), 0.55 * b * np.sqrt(r.random())
                c = centres[a] + rad * np.array([np.cos(ang), np.sin(ang)])
            c = c + vel * f
            dets.append({"id": int(a), "pts": (pose + c).tolist(), "score": score})
        order = r.permutation(len(dets))
        frames.append([dets[j] for j in order])
        presence.append(sorted(present))
    premise = {"b": b, "D": D, "step": step, "max_amp": float(amp.max()), "window": window, "fast": fast, "drift": drift}
    return frames, presence, premise


def assert_premise(frames, premise, window):
    """Re-derive the premise from the emitted history (guards the generator itself)."""
    pos = {}
    seen = set()
    gap = {}
    for f, dets in enumerate(frames):
        ids = {d["id"] for d in dets}
        new = ids - seen
        if new and not seen <= ids:
            return f"newcomer {sorted(new)} at frame {f} while {sorted(seen - ids)} undetected"
        cs = {d["id"]: np.mean(np.asarray(d["pts"]), 0) for d in dets}
        for a, c in cs.items():
            for b_, c2 in cs.items():
                if a < b_ and np.hypot(*(c - c2)) < (10.0 if premise.get("fast") else 3.0) * premise["b"]:
                    return "animals closer than 3 (fast regime: 10) body sizes"
            if a in pos and np.hypot(*(c - pos[a][1])) > (1.1 if premise.get("fast") else 0.5) * premise["b"] + 1e-9:
                return "animal moved more than half a (fast regime: 1.1) body size between sightings"
            pos[a] = (f, c)
        if ids:
            for a in seen | ids:
                gap[a] = 0 if a in ids else gap.get(a, 0) + 1
                if gap[a] > window - 1:
                    return f"animal {a} absent for {gap[a]} non-empty frames with window {window}"
        seen |= ids
    return None


def gen_case(ctx, i):
    r = ctx.rng(10, i)
    cfg = CONFIGS[i % len(CONFIGS)] if ctx.tier == "thorough" else CONFIGS[(i * 5 + int(r.integers(0, 3))) % len(CONFIGS)]
    frames, presence, premise = gen_scene(r, cfg)
    return {"i": i, "cfg": cfg, "frames": frames, "presence": presence, "premise": premise}


def directed(ctx):
    P = np.array([[0.0, 0.0], [40.0, 30.0], [10.0, 35.0]])

    def at(a, f):
        return {"id": a, "pts": (P + [100.0 + 200 * a + f, 100.0]).tolist(), "score": 0.9}

    base = {"track_matching_method": "hungarian", "features": "keypoints", "scoring_method": "oks", "scoring_reduction": "mean",
            "window_size": 3, "instance_score_threshold": 0.0}
    for cand in tc.CANDS:
        cfg = dict(base, candidates_method=cand)
        prem = {"b": 40.0, "D": 200.0, "step": 1.0, "max_amp": 3.0, "window": 3}
        yield {"i": -1, "cfg": cfg, "frames": [[at(0, f)] for f in range(4)], "presence": [[0]] * 4, "premise": prem}
        yield {"i": -2, "cfg": cfg, "frames": [[at(0, 0), at(1, 0)], [at(1, 1), at(0, 1)], [at(0, 2), at(1, 2), at(2, 2)], [at(2, 3), at(0, 3)], [at(1, 4), at(2, 4), at(0, 4)]],
               "presence": [[0, 1], [0, 1], [0, 1, 2], [0, 2], [0, 1, 2]], "premise": prem}


def cases(ctx):
    for i in range(N[ctx.tier]):
        if i % ctx.nshards == ctx.shard:
            yield gen_case(ctx, i)


def check(ctx, case):
    cfg, frames = case["cfg"], case["frames"]
    if case["premise"].get("fast"):
        ctx.count("fast_histories")
    if case["premise"].get("drift"):
        ctx.count("drift_histories")
    bad = assert_premise(frames, case["premise"], cfg["window_size"])
    if bad is not None:
        ctx.count("generator_premise_rejections")
        ctx.tick()
        return
    # frame indices need not be consecutive (tracking every s-th frame of a video), and max_tracks may equal the number of animals
    K_ = len({d["id"] for fr in frames for d in fr})
    i_ = abs(int(case.get("i", 0)))
    fstep, f0 = [1, 1, 2, 5, 11][i_ % 5], [0, 0, 3, 100][i_ % 4]
    extra = {"max_tracks": [None, None, K_, K_ + 2][(i_ // 5) % 4]} if cfg["candidates_method"] == "local_queues" else {}
    if fstep > 1:
        ctx.count("histories_with_frame_index_stride")
    if extra.get("max_tracks") == K_:
        ctx.count("histories_with_max_tracks_equal_animals")
    records, exc, tracker = tc.run_history(cfg, frames, frame_index=lambda f: f0 + fstep * f, extra_cfg=extra)
    ctx.count("histories")
    small = {"i": case["i"], "cfg": cfg, "frames": frames, "premise": case["premise"]}
    if exc is not None:
        ctx.violation(f"exception:{exc['type']}@{exc['where']}", f"Tracker.track raised {exc['type']}: {exc['msg']} at frame {len(records) - 1} ({tc.cfg_sig(cfg)})", small)
        ctx.tick((tuple(map(tuple, case["presence"])), tc.cfg_sig(cfg)))
        return
    ident = {}
    for f, rec in enumerate(records):
        got = dict(rec["out"])
        for oid, aid, sc in rec["in"]:
            ctx.count("identity_observations")
            t = got.get(oid)
            if t is None:
                ctx.violation("detection-without-track", f"frame {f}: animal {aid} has no track ({tc.cfg_sig(cfg)})", small)
                continue
            ident.setdefault(aid, []).append((f, t))
    changed = {a: v for a, v in ident.items() if len({t for _, t in v}) > 1}
    if changed:
        a, v = next(iter(changed.items()))
        ctx.violation("identity-switch", f"animal {a} changes track over frames: {v[:8]} ({tc.cfg_sig(cfg)})", small)
    else:
        owner = {}
        for a, v in ident.items():
            t = v[0][1]
            if t in owner:
                ctx.violation("identity-shared", f"animals {owner[t]} and {a} both hold track {t} ({tc.cfg_sig(cfg)})", small)
            owner[t] = a
    orders = [tuple(d["id"] for d in fr) for fr in frames]
    multi = len(ident) >= 2
    order_change = any(sorted(o) != list(o) for o in orders)
    absence = any(set(p) != set(q) for p, q in zip(case["presence"], case["presence"][1:]))
    nt = multi and (order_change or absence)
    ctx.tick((tuple(map(tuple, case["presence"])), hash(tuple(orders)) % 9973, tc.cfg_sig(cfg)) if nt else None,
             sample=small if ctx.evaluations < 2 else None)


def finalize(ctx):
    ctx.require("histories", 50)
    ctx.require("identity_observations", 500)
    if ctx.counters.get("generator_premise_rejections", 0) > 0.05 * max(1, ctx.evaluations):
        ctx.note_inconclusive("generator emitted too many histories outside the premise")


LEVEL_TEXT = ("Simulated multi-animal scenes that satisfy the property's premise by construction (re-asserted per history) are pushed through fresh real Trackers of every "
              "configuration; the ground-truth identity -> returned track relation must be a constant injective function. Exploration over sampled histories.")
LEVEL_NOTE = "Trusted: the scene simulator and its premise re-check (vf/props/c10.py). Outside the premise identity hand-over is by design and nothing is asserted."
TECHNIQUE = "runtime monitoring: history monitor (identity-continuity checker) over simulated premise-satisfying scenes"
