"""C09 — tracker safety over histories: no crash, nothing dropped/duplicated/invented,
no shared track within a frame. A fresh real Tracker per history."""
import itertools

import numpy as np

from vf.props import track_common as tc

LEVEL = "exploration"
RULE = ("(a) exhaustive presence patterns of K<=3 animals over F<=4 frames (each frame any subset, 4096+ patterns) crossed with tracker configurations "
        "{fixed_window,local_queues}x{hungarian,greedy}x{keypoints+oks,centroids+euclid,bboxes+iou,keypoints+euclid}x{mean,max}x window{1,2,3,5} x threshold{0,0.5} "
        "(quick: one rotating configuration per pattern; thorough: 48 per pattern incl. every candidate/matching/feature/reduction combination); (b) random hostile histories K<=5, F<=15 with bursts, empty frames, lone animals, "
        "late arrivals, absences longer than the window, shuffled detection order, overlapping and identical poses, NaN nodes, scores around the threshold. "
        "non-trivial = history with >=2 non-empty frames in which the number of detections changes; distinct by (presence pattern, configuration)")
ASSUMPTIONS = ["every detection has at least one visible node (an all-NaN pose has no features)", "a fresh Tracker per history",
               "detections are sio.PredictedInstance objects with finite scores"]
SHARDS = {"quick": 4, "thorough": 16}
BUDGET = {"quick": 110, "thorough": 600}
TIMEOUT = {"quick": 600, "thorough": 3000}
SELF_SHARDED = True
N_RANDOM = {"quick": 2500, "thorough": 1200000}
CONFIGS = list(tc.all_configs())


def base_pose(r, n_nodes, size):
    return r.uniform(-size / 2, size / 2, (n_nodes, 2))


def pattern_history(r, K, F, pattern):
    """pattern: tuple of F bitmasks over K animals. Animals sit 200 px apart and drift 1 px/frame."""
    n_nodes = 3
    poses = [np.array([[0.0, 0.0], [30.0, 10.0], [10.0, 35.0]]) for _ in range(K)]
    frames = []
    for f in range(F):
        dets = []
        for a in range(K):
            if pattern[f] >> a & 1:
                dets.append({"id": a, "pts": (poses[a] + np.array([100.0 + 200 * a + f, 100.0 + 0.5 * f])).tolist(), "score": 0.9})
        order = r.permutation(len(dets))
        frames.append([dets[j] for j in order])
    return frames


def random_history(r):
    K = int(r.integers(1, 6))
    F = int(r.integers(2, 16))
    n_nodes = int(r.integers(2, 6))
    size = float(r.choice([6, 30, 80]))
    spread = float(r.choice([20, 150, 400]))  # small spread => overlapping animals
    centres = r.uniform(50, 50 + spread, (K, 2))
    if r.random() < 0.15:
        centres[:] = centres[0]  # identical positions
    poses = [base_pose(r, n_nodes, size) for _ in range(K)]
    if r.random() < 0.2:
        poses = [poses[0].copy() for _ in range(K)]
    vel = r.normal(0, float(r.choice([0.5, 3, 20])), (K, 2))
    style = str(r.choice(["random", "bursts", "lone", "late", "stale", "flicker"]))
    present = np.zeros((K, F), bool)
    for a in range(K):
        if style == "random":
            present[a] = r.random(F) < 0.6
        elif style == "bursts":
            s = int(r.integers(0, F))
            present[a, s:s + int(r.integers(1, F + 1))] = True
            if r.random() < 0.5:
                s2 = int(r.integers(0, F))
                present[a, s2:s2 + int(r.integers(1, 4))] = True
        elif style == "lone":
            present[a] = (a == 0) or (r.random(F) < 0.1)
        elif style == "late":
            present[a, int(r.integers(0, F)):] = True
        elif style == "stale":
            g = int(r.integers(1, max(2, F - 1)))
            present[a, :g] = r.random() < 0.8
            present[a, min(F, g + int(r.integers(1, 8))):] = True
        else:
            present[a] = (np.arange(F) + a) % int(r.integers(2, 4)) == 0
    # incl. scores above a threshold (0 or 0.5) by less than float32 resolution: they exceed it and must get a track
    thr_scores = r.choice([0.3, 0.5, 0.5000001, float(np.nextafter(0.5, 1)), 0.5 * (1 + 1e-12), 1e-60, 0.7, 0.9, 1.0], size=(K, F))
    frames = []
    for f in range(F):
        dets = []
        for a in range(K):
            if present[a, f]:
                pts = poses[a] + centres[a] + vel[a] * f + r.normal(0, 0.3, (n_nodes, 2))
                if r.random() < 0.2 and n_nodes > 1:
                    m = r.random(n_nodes) < 0.4
                    if m.all():
                        m[0] = False
                    pts[m] = np.nan
                dets.append({"id": a, "pts": pts.tolist(), "score": float(thr_scores[a, f])})
        if r.random() < 0.08 and dets:  # exact duplicate detection of the same pose
            d = dict(dets[0])
            d["id"] = K + f
            dets.append(d)
        order = r.permutation(len(dets))
        frames.append([dets[j] for j in order])
    return frames, style


def gen_cases(ctx):
    idx = 0
    r = ctx.rng(9, 0)
    per_pattern = 1 if ctx.tier == "quick" else 48
    for K, F in [(1, 4), (2, 4), (3, 3), (3, 4)]:
        for pattern in itertools.product(range(2 ** K), repeat=F):
            for j in range(per_pattern):
                idx += 1
                if idx % ctx.nshards != ctx.shard:
                    continue
                cfg = CONFIGS[(idx * 7 + j * 13) % len(CONFIGS)]
                rr = ctx.rng(9, 1, idx)
                yield {"kind": "pattern", "K": K, "F": F, "pattern": list(pattern), "cfg": cfg, "frames": pattern_history(rr, K, F, pattern), "tuple": bool(idx % 5 == 4)}
    for i in range(N_RANDOM[ctx.tier]):
        if i % ctx.nshards != ctx.shard:
            continue
        rr = ctx.rng(9, 2, i)
        frames, style = random_history(rr)
        cfg = CONFIGS[int(rr.integers(0, len(CONFIGS)))]
        yield {"kind": "random:" + style, "cfg": cfg, "frames": frames, "tuple": bool(i % 5 == 4)}


def directed(ctx):
    P = [[0.0, 0.0], [30.0, 10.0], [10.0, 35.0]]

    def at(a, f, s=0.9):
        return {"id": a, "pts": (np.array(P) + [100.0 + 200 * a + f, 100.0]).tolist(), "score": s}

    fw = {"candidates_method": "fixed_window", "track_matching_method": "hungarian", "features": "keypoints", "scoring_method": "oks",
          "scoring_reduction": "mean", "window_size": 2, "instance_score_threshold": 0.0}
    lq = dict(fw, candidates_method="local_queues")
    # (a) lone animal over three frames
    yield {"kind": "directed:lone", "cfg": fw, "frames": [[at(0, f)] for f in range(3)]}
    yield {"kind": "directed:lone", "cfg": lq, "frames": [[at(0, f)] for f in range(3)]}
    # (b) local queues: a third animal appears next to two tracked ones
    yield {"kind": "directed:newcomer", "cfg": lq, "frames": [[at(0, 0), at(1, 0)], [at(0, 1), at(1, 1)], [at(0, 2), at(1, 2), at(2, 2)]]}
    # (c) fixed window + hungarian: animal 1 absent for >= window tracked frames then returns
    yield {"kind": "directed:stale", "cfg": fw, "frames": [[at(0, 0), at(1, 0)], [at(0, 1)], [at(0, 2)], [at(0, 3)], [at(0, 4), at(1, 4)]]}
    # (d) same with max reduction
    yield {"kind": "directed:stale", "cfg": dict(fw, scoring_reduction="max"), "frames": [[at(0, 0), at(1, 0)], [at(0, 1)], [at(0, 2)], [at(0, 3)], [at(0, 4), at(1, 4)]]}


def cases(ctx):
    yield from gen_cases(ctx)


def classify_exc(cfg, exc):
    msg = exc["msg"]
    if exc["type"] == "TypeError" and "not iterable" in msg and cfg["candidates_method"] == "local_queues":
        return "local-queues-add-new-tracks-given-a-single-instance"
    if exc["type"] == "ValueError" and "infeasible" in msg:
        return "stale-track-makes-hungarian-assignment-infeasible"
    if exc["type"] == "ValueError" and "zero-size array" in msg:
        return "stale-track-empty-reduction-with-max"
    return f"exception:{exc['type']}@{exc['where']}"


def check(ctx, case):
    cfg, frames = case["cfg"], case["frames"]
    thr = cfg["instance_score_threshold"]
    as_tuple = bool(case.get("tuple"))  # every fifth history hands each frame's detections over as a tuple
    if as_tuple:
        ctx.count("histories_with_tuple_frames")
    records, exc, tracker = tc.run_history(cfg, frames, container=tuple if as_tuple else list)
    ctx.count("histories")
    ctx.count("track_calls", len(records))
    small = {"kind": case["kind"], "cfg": cfg, "frames": frames}
    if exc is not None:
        ctx.violation(classify_exc(cfg, exc), f"Tracker.track raised {exc['type']}: {exc['msg']} in {exc['where']} at frame {len(records) - 1} ({tc.cfg_sig(cfg)})", small)
    for f, rec in enumerate(records):
        if rec["out"] is None:
            break
        ins = {oid: (aid, sc) for oid, aid, sc in rec["in"]}
        out_ids = [oid for oid, _ in rec["out"]]
        ctx.count("frames_checked")
        if len(set(out_ids)) != len(out_ids):
            ctx.violation("detection-returned-twice", f"frame {f}: a detection is returned twice ({tc.cfg_sig(cfg)})", small)
        if not set(out_ids) <= set(ins):
            ctx.violation("foreign-detection", f"frame {f}: an instance that was not given is returned ({tc.cfg_sig(cfg)})", small)
        tracks = [t for _, t in rec["out"] if t is not None]
        if len(set(tracks)) != len(tracks):
            ctx.violation("shared-track-in-frame", f"frame {f}: two detections share track {sorted(tracks)} ({tc.cfg_sig(cfg)})", small)
        got = dict(rec["out"])
        missing = [aid for oid, (aid, sc) in ins.items() if sc > thr and (oid not in got or got[oid] is None)]
        if missing:
            n_in = len(ins)
            n_tracks_seen = rec["n_tracks_before"]
            if min(n_in, n_tracks_seen) == 1:
                key = "single-match-at-index-0-ignored"
            else:
                key = "detection-dropped-or-trackless"
            ctx.violation(key, f"frame {f}: detections of animals {missing} (score > {thr}) are not returned with a track; {n_in} detections, {n_tracks_seen} existing tracks ({tc.cfg_sig(cfg)})", small)
    counts = [len(fr) for fr in frames if len(fr)]
    nt = len(counts) >= 2 and len(set(counts)) >= 2
    presence = tuple(tuple(sorted(d["id"] for d in fr)) for fr in frames)
    ctx.tick((presence, tc.cfg_sig(cfg)) if nt else None, sample=small if ctx.evaluations < 2 else None)
    # informational: queue / id-list state at the quiescent point
    try:
        ctx.count("tracks_created", len(tracker.candidate.current_tracks))
    except Exception:
        pass


def finalize(ctx):
    ctx.require("histories", 50)
    ctx.require("frames_checked", 200)


LEVEL_TEXT = ("Every history is pushed through a fresh real Tracker; per frame the returned list is compared with the given detections by object identity "
              "(subset, no duplicate, every above-threshold detection present with a track, no shared track) and any exception is a violation. Presence patterns of "
              "<=3 animals over <=4 frames are enumerated exhaustively, larger hostile histories are sampled.")
LEVEL_NOTE = "Trusted: sleap-io object identity; configurations are sampled per pattern (all combinations appear, not all pattern x configuration pairs in the quick tier)."
TECHNIQUE = "runtime monitoring: history monitor at the Tracker.track boundary over enumerated and random histories"
