"""C05 — part-affinity-field targets: direction, weight bounds/monotonicity, additivity,
exact zeros, layout. The weight formula itself is not pinned (the property does not pin it)."""
import numpy as np

from vf.core import unjson_array
from vf.refmodels import maps as ref

LEVEL = "exploration"
RULE = ("seeded scenes: 0-4 animals x 2-6 nodes x random edge lists (trees, non-trees, repeated edges) x NaN patterns x coincident nodes x "
        "animals inside / straddling / wholly outside / in the last-stride band x stride{1,2,4,8} x sigma[0.5,30] x functional + DataPipe, "
        "flattened + unflattened; non-trivial = >=1 animal with >=1 non-degenerate edge and a non-zero field; distinct by "
        "(variant, stride, n_animals, n_edges, NaN class, placement classes)")
ASSUMPTIONS = ["float32 inputs, image sides multiples of the stride, coordinates within [-60, 320] for the geometric checks",
               "monotonicity margin 1e-3 px (edge length for edges shorter than 1 px, where the implementation's projection clamp is approximate)",
               "'wholly outside' = every visible node outside [0,W]x[0,H]; 'inside' = at least one visible node in [0,W-1]x[0,H-1]"]
SHARDS = {"quick": 4, "thorough": 16}
N = {"quick": 2800, "thorough": 1200000}
BUDGET = {"quick": 100, "thorough": 600}
TIMEOUT = {"quick": 600, "thorough": 2400}
SELF_SHARDED = True
VARIANTS = ["fn", "fn_flat", "dp", "dp_flat"]
KEY_BAND = "in-image-animal-dropped-by-strict-interior-filter"
KEY_SUBPX = "subpixel-edge-weight-below-1-at-destination-end"


def gen_case(ctx, i):
    r = ctx.rng(5, i)
    s = int(r.choice([1, 2, 4, 8]))
    H, W = int(s * r.integers(3, 14)), int(s * r.integers(3, 14))
    sigma = float(np.exp(r.uniform(np.log(0.5), np.log(30.0))))
    n_nodes = int(r.integers(2, 7))
    n_an = int(r.integers(0, 5))
    many = (i % 100 == 37)  # a crowded frame: 33-70 animals (rendered in blocks by some implementations), one or two edges
    if many:
        n_an, n_nodes = int(r.integers(33, 71)), int(r.integers(2, 4))
    kind = str(r.choice(["tree", "random", "repeat"]))
    if kind == "tree":
        perm = r.permutation(n_nodes)
        edges = [[int(perm[r.integers(0, k)]), int(perm[k])] for k in range(1, n_nodes)]
        r.shuffle(edges)
    else:
        n_e = int(r.integers(1, 3)) if many else int(r.integers(1, 7))
        edges = []
        for _ in range(n_e):
            a, b = r.choice(n_nodes, size=2, replace=False)
            edges.append([int(a), int(b)])
        if kind == "repeat":
            edges.append(list(edges[0]))
    nan_class = str(r.choice(["none", "none", "some", "animal", "xy"]))
    pts, places = [], []
    xlast, ylast = (W // s - 1) * s, (H // s - 1) * s
    for a in range(n_an):
        place = str(r.choice(["inside", "inside", "straddle", "outside", "band", "oncell", "coincident", "subpixel"]))
        places.append(place)
        if place == "outside":
            side = int(r.integers(0, 4))
            x = r.uniform(-50, -1.5, n_nodes) if side == 0 else r.uniform(W + 1.5, W + 50, n_nodes) if side == 1 else r.uniform(-50, W + 50, n_nodes)
            y = r.uniform(-50, H + 50, n_nodes) if side < 2 else (r.uniform(-50, -1.5, n_nodes) if side == 2 else r.uniform(H + 1.5, H + 50, n_nodes))
        elif place == "band":
            if r.random() < 0.5:
                x = r.uniform(xlast, W - 1, n_nodes) if xlast < W - 1 and r.random() < 0.7 else np.full(n_nodes, float(xlast))
                y = r.uniform(0, H - 1, n_nodes)
            else:
                x = r.uniform(0, W - 1, n_nodes)
                y = np.zeros(n_nodes) if r.random() < 0.4 else (r.uniform(ylast, H - 1, n_nodes) if ylast < H - 1 else np.full(n_nodes, float(ylast)))
            if r.random() < 0.5:  # snap to integer pixels so grid cells can lie on the segment
                x, y = np.round(x), np.round(y)
        elif place == "straddle":
            x = r.uniform(-0.4 * W, 1.4 * W, n_nodes)
            y = r.uniform(-0.4 * H, 1.4 * H, n_nodes)
        elif place == "oncell":
            x = s * r.integers(0, W // s, n_nodes).astype(float)
            y = s * r.integers(0, H // s, n_nodes).astype(float)
        else:
            x = r.uniform(0.5, W - 1.5, n_nodes)
            y = r.uniform(0.5, H - 1.5, n_nodes)
        p = np.stack([x, y], -1)
        if place == "subpixel" and W // s >= 4 and H // s >= 4:
            # an edge shorter than one pixel with one endpoint exactly on a grid cell (so a cell lies on the segment)
            j, k = edges[int(r.integers(0, len(edges)))]
            if r.random() < 0.5:
                j, k = k, j
            p[j] = [float(s * r.integers(1, W // s - 2)), float(s * r.integers(1, H // s - 2))]
            ang, L = r.uniform(0, 2 * np.pi), r.uniform(0.2, 0.95)
            p[k] = p[j] + L * np.array([np.cos(ang), np.sin(ang)])
        if place == "coincident" and n_nodes >= 2:
            j, k = r.choice(n_nodes, 2, replace=False)
            p[k] = p[j]
            if r.random() < 0.4:  # sub-pixel edge
                p[k] = p[j] + r.uniform(-0.6, 0.6, 2)
        pts.append(p)
    pts = np.array(pts).reshape(n_an, n_nodes, 2)
    if n_an:
        if nan_class == "some":
            pts[r.random((n_an, n_nodes)) < 0.3] = np.nan
        elif nan_class == "animal":
            pts[int(r.integers(0, n_an))] = np.nan
        elif nan_class == "xy":
            m = r.random((n_an, n_nodes)) < 0.3
            for a in range(n_an):
                for k in range(n_nodes):
                    if m[a, k]:
                        pts[a, k, int(r.integers(0, 2))] = np.nan
    return {"i": i, "variant": VARIANTS[i % 4], "H": H, "W": W, "stride": s, "sigma": sigma, "n_nodes": n_nodes,
            "edges": edges, "points": pts, "nan_class": nan_class, "places": places}


def directed(ctx):
    # the last-stride band witness from DESIGN §4-C05 (known finding): animal on column xv[-1]
    yield {"i": -1, "variant": "fn", "H": 64, "W": 64, "stride": 8, "sigma": 4.0, "n_nodes": 2, "edges": [[0, 1]],
           "points": np.array([[[56.0, 16.0], [56.0, 40.0]]]), "nan_class": "none", "places": ["band"]}
    yield {"i": -2, "variant": "fn_flat", "H": 32, "W": 48, "stride": 4, "sigma": 2.0, "n_nodes": 3, "edges": [[0, 1], [1, 2]],
           "points": np.array([[[8.0, 0.0], [24.0, 0.0], [40.0, 0.0]], [[10.0, 10.0], [20.0, 20.0], [np.nan, 5.0]]]), "nan_class": "some", "places": ["band", "inside"]}
    yield {"i": -3, "variant": "dp_flat", "H": 32, "W": 32, "stride": 2, "sigma": 1.5, "n_nodes": 3, "edges": [[2, 0], [0, 1]],
           "points": np.array([[[4.0, 4.0], [20.0, 4.0], [4.0, 24.0]]]), "nan_class": "none", "places": ["oncell"]}
    yield from directed_subpixel()


def directed_subpixel():
    # sub-pixel edge whose destination sits on a grid cell (known finding: projection clamp), and the reverse orientation (exact)
    for e in ([[0, 1]], [[1, 0]]):
        yield {"i": -4 if e == [[0, 1]] else -5, "variant": "fn", "H": 32, "W": 32, "stride": 1, "sigma": 0.5, "n_nodes": 2, "edges": e,
               "points": np.array([[[10.58, 12.0], [10.0, 12.0]]]), "nan_class": "none", "places": ["subpixel"]}


def cases(ctx):
    for i in range(N[ctx.tier]):
        if i % ctx.nshards == ctx.shard:
            yield gen_case(ctx, i)


class StreamMismatch(Exception):
    pass


def real_pafs(variant, inst32, H, W, s, sigma, edges):
    """Return the real output as (E, 2, gh, gw) float64 plus the raw shape."""
    import torch
    from sleap_nn.data import edge_maps as em

    t = torch.from_numpy(np.ascontiguousarray(inst32)).unsqueeze(0)
    e = torch.tensor(edges, dtype=torch.int64).reshape(-1, 2)
    flat = variant.endswith("_flat")
    if variant.startswith("fn"):
        out = em.generate_pafs(t, (H, W), sigma=sigma, output_stride=s, edge_inds=e, flatten_channels=flat)
    else:
        # one pipe object is fed a stream [warm-up of another image size, example]: state kept from the first item would show in the second
        ex = {"image": torch.zeros((1, 1, H, W)), "instances": t}
        H2, W2 = H + s * 2, max(2 * s, W - s)
        tw = t + 1.5 * s
        warm = {"image": torch.zeros((1, 1, H2, W2)), "instances": tw.clone()}
        res = list(em.PartAffinityFieldsGenerator([warm, ex], sigma=sigma, output_stride=s, edge_inds=e, flatten_channels=flat))
        if len(res) != 2:
            raise StreamMismatch(f"a stream of 2 examples yielded {len(res)}")
        w_fn = em.generate_pafs(tw.clone(), (H2, W2), sigma=sigma, output_stride=s, edge_inds=e, flatten_channels=flat)
        w_dp = res[0]["part_affinity_fields"]
        if tuple(w_dp.shape) != tuple(w_fn.shape) or not torch.allclose(w_dp, w_fn, atol=1e-6, equal_nan=True):
            raise StreamMismatch(f"first stream item ({H2}x{W2}) differs from the functional call on the same input: {tuple(w_dp.shape)} vs {tuple(w_fn.shape)}")
        out = res[1]["part_affinity_fields"]
        # the same example objects go through a second datapipe with another sigma: its output must be that pipe's own, not a left-over
        res2 = list(em.PartAffinityFieldsGenerator([warm, ex], sigma=sigma * 1.5 + 0.25, output_stride=s, edge_inds=e, flatten_channels=flat))
        f2 = em.generate_pafs(t.clone(), (H, W), sigma=sigma * 1.5 + 0.25, output_stride=s, edge_inds=e, flatten_channels=flat)
        if len(res2) != 2 or tuple(res2[1]["part_affinity_fields"].shape) != tuple(f2.shape) or not torch.allclose(res2[1]["part_affinity_fields"], f2, atol=1e-6, equal_nan=True):
            raise StreamMismatch("a second PartAffinityFieldsGenerator (other sigma) over the same example dicts does not return its own fields")
    raw = tuple(out.shape)
    arr = out.detach().numpy().astype(np.float64)
    return arr, raw, flat


def check(ctx, case):
    pts = case["points"] if isinstance(case["points"], np.ndarray) else unjson_array(case["points"])
    n_nodes = case["n_nodes"]
    pts = pts.reshape(-1, n_nodes, 2)
    H, W, s, sigma, edges, variant = case["H"], case["W"], case["stride"], case["sigma"], case["edges"], case["variant"]
    E = len(edges)
    gh, gw = H // s, W // s
    p32 = pts.astype(np.float32)
    p64 = p32.astype(np.float64)
    n_an = len(p64)
    small = {k: case[k] for k in ("i", "variant", "H", "W", "stride", "sigma", "n_nodes", "edges", "nan_class", "places")}
    small["points"] = pts
    try:
        full, raw, flat = real_pafs(variant, p32, H, W, s, sigma, edges)
    except StreamMismatch as e:
        ctx.violation("stream", f"{variant}: {e}", small)
        ctx.tick()
        return
    ctx.count("real_calls:" + variant)
    want = (2 * E, gh, gw) if flat else (E, 2, gh, gw)
    if raw != want:
        ctx.violation("shape", f"{variant}: shape {raw} != {want}", small)
        ctx.tick()
        return
    if not np.all(np.isfinite(full)):
        ctx.violation("non-finite", f"{variant}: output contains NaN/Inf", small)
        ctx.tick()
        return
    # channel layout: flattened channel 2k = edge k x, 2k+1 = edge k y
    full4 = full.reshape(E, 2, gh, gw)
    xv, yv = ref.grid(W, s), ref.grid(H, s)
    GX, GY = np.meshgrid(xv, yv)
    acc = np.zeros_like(full4)
    nontriv = False
    xl, yl = xv[-1], yv[-1]
    for a in range(n_an):
        P = p64[a]
        vis = np.isfinite(P).all(-1)
        in_open = vis & (P[:, 0] > 0) & (P[:, 0] < xl) & (P[:, 1] > 0) & (P[:, 1] < yl)
        in_img = vis & (P[:, 0] >= 0) & (P[:, 0] <= W - 1) & (P[:, 1] >= 0) & (P[:, 1] <= H - 1)
        out_all = vis.any() and bool(np.all(~vis | (P[:, 0] < 0) | (P[:, 0] > W) | (P[:, 1] < 0) | (P[:, 1] > H)))
        for k, (si, di) in enumerate(edges):
            one, _, _ = real_pafs("fn", p32[a:a + 1], H, W, s, sigma, [[si, di]])
            ctx.count("single_edge_calls")
            f = one.reshape(2, gh, gw)
            acc[k] += f
            src, dst = P[si], P[di]
            degenerate = (not np.isfinite(src).all()) or (not np.isfinite(dst).all()) or bool(np.all(src == dst))
            if not np.all(np.isfinite(f)):
                ctx.violation("non-finite", "single-edge field has NaN/Inf", small)
                continue
            if degenerate:
                ctx.count("degenerate_edges")
                if np.any(f != 0):
                    ctx.violation("degenerate-edge-nonzero", f"edge {k} of animal {a} has a missing endpoint or zero length but contributes {np.abs(f).max():.3g}", small)
                continue
            if vis.any() and not out_all and not in_img.any():
                # every visible node lies in the half-open rim between the last pixel centre (W-1 / H-1) and the image size (W / H) or beyond:
                # neither "inside" nor "wholly outside" as this check defines them - nothing is asserted beyond finiteness
                ctx.count("rim_animals_edges")
                continue
            if not vis.any() or out_all:
                ctx.count("outside_animals_edges")
                if np.any(f != 0):
                    ctx.violation("outside-animal-nonzero", f"animal {a} wholly outside the image contributes {np.abs(f).max():.3g}", small)
                continue
            d = dst - src
            L = float(np.hypot(*d))
            u = d / L
            wgt = f[0] * u[0] + f[1] * u[1]
            cross = f[0] * u[1] - f[1] * u[0]
            dist = ref.seg_distance(GX, GY, src, dst)
            ctx.count("edge_fields_checked")
            dropped = not np.any(f != 0)
            if np.abs(cross).max() > 1e-5:
                ctx.violation("direction", f"field of edge {k} animal {a} not parallel to src->dst (|cross|={np.abs(cross).max():.3g})", small)
                continue
            if wgt.min() < -1e-6 or wgt.max() > 1 + 1e-6:
                ctx.violation("weight-range", f"weight along src->dst outside [0,1]: [{wgt.min():.4g},{wgt.max():.4g}] (edge {k}, animal {a})", small)
                continue
            if not dropped:
                nontriv = True
            if L >= 1.0:
                on = dist <= 1e-6
                if on.any():
                    ctx.count("cells_on_segment", int(on.sum()))
                    if wgt[on].min() < 1 - 1e-3:
                        if dropped and not in_open.any() and in_img.any():
                            ctx.violation(KEY_BAND, f"animal {a} has a node inside the image but none strictly inside (0,{xl})x(0,{yl}); its field is identically 0 (weight on the segment {wgt[on].min():.3g})", small)
                        else:
                            ctx.violation("weight-on-segment", f"weight {wgt[on].min():.4g} < 1 on a cell lying on the segment (edge {k}, animal {a})", small)
                        continue
            elif not dropped:
                # sub-pixel edge: a cell coinciding with an endpoint lies on the segment
                at_src = np.hypot(GX - src[0], GY - src[1]) <= 1e-6
                at_dst = np.hypot(GX - dst[0], GY - dst[1]) <= 1e-6
                if at_src.any():
                    ctx.count("subpixel_cells_on_source")
                    if wgt[at_src].min() < 1 - 1e-3:
                        ctx.violation("weight-on-segment", f"sub-pixel edge (length {L:.3f}): field at the cell on its source point has weight {wgt[at_src].min():.4g} along src->dst, expected 1 (edge {k}, animal {a})", small)
                        continue
                if at_dst.any():
                    ctx.count("subpixel_cells_on_destination")
                    w_clamp = float(np.exp(-0.5 * (L * (1 - L * L)) ** 4 / sigma ** 2))  # what the max(len^2, 1) projection clamp yields at the destination end (the weight is a Gaussian of the *squared* distance)
                    if wgt[at_dst].min() < 1 - 1e-3:
                        key = KEY_SUBPX if abs(wgt[at_dst].min() - w_clamp) <= 2e-3 else "weight-on-segment"
                        ctx.violation(key, f"sub-pixel edge (length {L:.3f}, sigma {sigma:.3g}): weight {wgt[at_dst].min():.4g} < 1 at the cell on its destination point (edge {k}, animal {a})", small)
                        continue
            # monotone: d1 + m < d2  =>  w1 >= w2 - 1e-5
            m = 1e-3 if L >= 1.0 else max(L, 1e-3)
            order = np.argsort(dist, axis=None)
            ds, ws = dist.ravel()[order], wgt.ravel()[order]
            j = 0
            run_min = np.inf
            worst = 0.0
            for t_ in range(len(ds)):
                while j < t_ and ds[j] + m < ds[t_]:
                    run_min = min(run_min, ws[j])
                    j += 1
                if run_min < np.inf and ws[t_] > run_min + 1e-5:
                    worst = max(worst, ws[t_] - run_min)
            if worst > 0:
                ctx.violation("weight-monotone", f"weight increases with distance from the segment by {worst:.3g} (edge {k}, animal {a}, sigma={sigma:.3g})", small)
    err = np.abs(full4 - acc).max() if full4.size else 0.0
    ctx.count("additivity_checks")
    if err > 1e-5:
        ctx.violation("additivity-layout", f"{variant}: field of all animals/edges differs from the sum of single-animal single-edge fields placed at channels (2k,2k+1) by {err:.3g}", small)
    sig = None
    if nontriv:
        sig = (variant, s, n_an, E, case["nan_class"], tuple(sorted(set(case["places"]))))
    ctx.tick(sig, sample=small if case["i"] in (0, 1, 2) else None)


def finalize(ctx):
    if ctx.tier == "thorough" and ctx.shard == 0:  # ambient contracts while the repository's own pinned tests run
        from vf import ambient

        ambient.run_tests(ctx, "C05", ["tests/data/test_edge_maps.py"], ["generate_pafs"])
    for v in VARIANTS:
        ctx.require("real_calls:" + v, 1)
    ctx.require("edge_fields_checked", 20)
    ctx.require("cells_on_segment", 5)


LEVEL_TEXT = ("Every scene is pushed through the real generate_pafs / PartAffinityFieldsGenerator; each single-animal single-edge field is checked against the "
              "true segment geometry (parallelism, weight in [0,1], 1 on the segment, monotone in true distance) and the full field against the sum of those "
              "(additivity + channel layout); exact zeros for degenerate edges and outside animals. Exploration over seeded hostile scenes.")
LEVEL_NOTE = "Trusted: float64 point-segment distance (vf/refmodels/maps.py). The weight formula is not pinned; sub-pixel edges get a margin equal to their length."
TECHNIQUE = "runtime monitoring: boundary probe + geometric/metamorphic oracle over seeded scenes"
