"""C20 — configuration builders reflect every argument; normalisation is lossless and idempotent;
validated fields reject invalid values."""
import inspect
import itertools
import os

import numpy as np

LEVEL = "exploration"
EXHAUSTIVE = {"quick": False, "thorough": False}
RULE = ("(a) builder calls: every argument of get_data_config / get_model_config / get_trainer_config singly with >=2 non-default sentinels, all pairs, random full "
        "combinations; all 12 backbone presets x 4 head types (strings and dict forms); expected tree = schema defaults (attrs classes) overlaid with the builder's "
        "signature defaults and the supplied values at the documented paths; (b) ALL ordered lists of 1-5 distinct geometric names (325) and 1-4 intensity names (64): "
        "every named augmentation enabled; (c) every complete configuration produced in (a) through verify_training_cfg (value-equal, idempotent) and an "
        "OmegaConf.save/load round trip; (d) single-field invalid values for the validated fields, plus boundary-valid values that must be accepted. "
        "non-trivial = call with >=3 non-default arguments or a list of >=2 augmentations; distinct by the argument-name/value signature")
ASSUMPTIONS = ["the argument -> path table below was written from the builders' docstrings and docs/config.md, not from their bodies",
               "an option the builders expose takes the builder's documented (signature) default when unspecified; options they do not expose take the schema default",
               "an augmentation counts as enabled when its probability is > 0 and, for the affine ones, its parameter is non-neutral (rotation != 0, scale != (1,1), translation > 0)"]
SHARDS = {"quick": 4, "thorough": 16}
N_RANDOM = {"quick": 200, "thorough": 40000}
BUDGET = {"quick": 110, "thorough": 600}
TIMEOUT = {"quick": 600, "thorough": 3000}
SELF_SHARDED = True

GEOM = ["rotation", "scale", "translate", "erase_scale", "mixup"]
INTENS = ["uniform_noise", "gaussian_noise", "contrast", "brightness"]
PRESETS = {"unet": ("unet", "UNetConfig"), "unet_medium_rf": ("unet", "UNetMediumRFConfig"), "unet_large_rf": ("unet", "UNetLargeRFConfig"),
           "convnext": ("convnext", "ConvNextConfig"), "convnext_tiny": ("convnext", "ConvNextConfig"), "convnext_small": ("convnext", "ConvNextSmallConfig"),
           "convnext_base": ("convnext", "ConvNextBaseConfig"), "convnext_large": ("convnext", "ConvNextLargeConfig"),
           "swint": ("swint", "SwinTConfig"), "swint_tiny": ("swint", "SwinTConfig"), "swint_small": ("swint", "SwinTSmallConfig"), "swint_base": ("swint", "SwinTBaseConfig")}
HEADS = {"single_instance": "SingleInstanceConfig", "centroid": "CentroidConfig", "centered_instance": "CenteredInstanceConfig", "bottomup": "BottomUpConfig"}

# argument -> path(s) in the training configuration (documented places)
DATA_PATHS = {
    "train_labels_path": ["data_config.train_labels_path"], "val_labels_path": ["data_config.val_labels_path"], "test_file_path": ["data_config.test_file_path"],
    "provider": ["data_config.provider"], "user_instances_only": ["data_config.user_instances_only"], "data_pipeline_fw": ["data_config.data_pipeline_fw"],
    "np_chunks_path": ["data_config.np_chunks_path"], "litdata_chunks_path": ["data_config.litdata_chunks_path"], "use_existing_chunks": ["data_config.use_existing_chunks"],
    "chunk_size": ["data_config.chunk_size"], "delete_chunks_after_training": ["data_config.delete_chunks_after_training"],
    "is_rgb": ["data_config.preprocessing.is_rgb"], "scale": ["data_config.preprocessing.scale"], "max_height": ["data_config.preprocessing.max_height"],
    "max_width": ["data_config.preprocessing.max_width"], "crop_hw": ["data_config.preprocessing.crop_hw"], "min_crop_size": ["data_config.preprocessing.min_crop_size"],
    "use_augmentations_train": ["data_config.use_augmentations_train"],
}
MODEL_PATHS = {"init_weight": ["model_config.init_weights"], "pre_trained_weights": ["model_config.pre_trained_weights"],
               "pretrained_backbone_weights": ["model_config.pretrained_backbone_weights"], "pretrained_head_weights": ["model_config.pretrained_head_weights"]}
TRAINER_PATHS = {
    "batch_size": ["trainer_config.train_data_loader.batch_size", "trainer_config.val_data_loader.batch_size"], "shuffle_train": ["trainer_config.train_data_loader.shuffle"],
    "num_workers": ["trainer_config.train_data_loader.num_workers", "trainer_config.val_data_loader.num_workers"], "ckpt_save_top_k": ["trainer_config.model_ckpt.save_top_k"],
    "ckpt_save_last": ["trainer_config.model_ckpt.save_last"], "trainer_num_devices": ["trainer_config.trainer_devices"], "trainer_accelerator": ["trainer_config.trainer_accelerator"],
    "enable_progress_bar": ["trainer_config.enable_progress_bar"], "steps_per_epoch": ["trainer_config.steps_per_epoch"], "max_epochs": ["trainer_config.max_epochs"],
    "seed": ["trainer_config.seed"], "use_wandb": ["trainer_config.use_wandb"], "save_ckpt": ["trainer_config.save_ckpt"], "save_ckpt_path": ["trainer_config.save_ckpt_path"],
    "resume_ckpt_path": ["trainer_config.resume_ckpt_path"], "wandb_entity": ["trainer_config.wandb.entity"], "wandb_project": ["trainer_config.wandb.project"],
    "wandb_name": ["trainer_config.wandb.name"], "wandb_api_key": ["trainer_config.wandb.api_key"], "wandb_mode": ["trainer_config.wandb.wandb_mode"],
    "wandb_resume_prv_runid": ["trainer_config.wandb.prv_runid"], "wandb_group_name": ["trainer_config.wandb.group"], "optimizer": ["trainer_config.optimizer_name"],
    "learning_rate": ["trainer_config.optimizer.lr"], "amsgrad": ["trainer_config.optimizer.amsgrad"],
    "early_stopping": ["trainer_config.early_stopping.stop_training_on_plateau"], "early_stopping_min_delta": ["trainer_config.early_stopping.min_delta"],
    "early_stopping_patience": ["trainer_config.early_stopping.patience"],
}
SENTINELS = {
    "train_labels_path": ["tr_A.slp", "./x//tr_B.slp"], "val_labels_path": ["va_A.slp", "x/./va_B.slp"], "test_file_path": ["t.slp", "t.mp4"],
    "provider": ["VideoReader", "OtherReader"], "user_instances_only": [False], "data_pipeline_fw": ["litdata", "torch_dataset_np_chunks"],
    "np_chunks_path": ["np/a", "./np/b/", "np//c"], "litdata_chunks_path": ["ld/a", "ld/b/", "/abs/./ld"], "use_existing_chunks": [True], "chunk_size": [7, 250],
    "delete_chunks_after_training": [False], "is_rgb": [True], "scale": [0.5, 2.0], "max_height": [128, 333], "max_width": [96, 512], "crop_hw": [(160, 160), (64, 96)],
    "min_crop_size": [32, None], "use_augmentations_train": [True],
    "init_weight": ["xavier"], "pretrained_backbone_weights": ["bb.ckpt", "bb2.ckpt"], "pretrained_head_weights": ["hd.ckpt", "hd2.ckpt"],
    "batch_size": [1, 16], "shuffle_train": [False], "num_workers": [0, 2, 5], "ckpt_save_top_k": [0, 3, -1], "ckpt_save_last": [False], "trainer_num_devices": [1, 2],
    "trainer_accelerator": ["cpu", "gpu"], "enable_progress_bar": [True], "steps_per_epoch": [3, 50], "max_epochs": [1, 7], "seed": [0, 42], "use_wandb": [True],
    "save_ckpt": [True], "save_ckpt_path": ["ck/a", "./ck/b/"], "resume_ckpt_path": ["r.ckpt", "./x//r2.ckpt"], "wandb_entity": ["ent", "ent2"], "wandb_project": ["proj", "proj2"],
    "wandb_name": ["run", "run2"], "wandb_api_key": ["KEY123", "KEY456"], "wandb_mode": ["offline", "online"], "wandb_resume_prv_runid": ["abc", "def"],
    "wandb_group_name": ["grp", "grp2"], "optimizer": ["AdamW"], "learning_rate": [1e-4, 0.05], "amsgrad": [True], "early_stopping": [True],
    "early_stopping_min_delta": [0.0, 1e-3, 0.5], "early_stopping_patience": [0, 9],
}


def set_path(tree, path, value):
    node = tree
    parts = path.split(".")
    for p in parts[:-1]:
        node = node[p]
    node[parts[-1]] = value


def norm(x):
    if isinstance(x, dict):
        return {k: norm(v) for k, v in x.items()}
    if isinstance(x, (list, tuple)):
        return [norm(v) for v in x]
    if isinstance(x, float) and x == int(x) and abs(x) < 1e15:
        return float(x)
    return x


def diff(a, b, path=""):
    out = []
    if isinstance(a, dict) and isinstance(b, dict):
        for k in sorted(set(a) | set(b)):
            if k not in a:
                out.append(f"{path}{k}: missing in result (expected {b[k]!r})")
            elif k not in b:
                out.append(f"{path}{k}: unexpected key in result ({a[k]!r})")
            else:
                out += diff(a[k], b[k], path + k + ".")
    elif isinstance(a, list) and isinstance(b, list) and len(a) == len(b):
        for i, (x, y) in enumerate(zip(a, b)):
            out += diff(x, y, f"{path}{i}.")
    elif a != b and not (isinstance(a, (int, float)) and isinstance(b, (int, float)) and not isinstance(a, bool) and not isinstance(b, bool) and float(a) == float(b)):
        out.append(f"{path[:-1]}: result {a!r} != expected {b!r}")
    return out


def expected_tree(data_kw, model_kw, trainer_kw):
    """Schema defaults overlaid with builder signature defaults and supplied values."""
    import attrs
    from sleap_nn import train as T
    from sleap_nn.config import data_config as dc, model_config as mc, trainer_config as tc
    from sleap_nn.config.training_job_config import TrainingJobConfig

    full_d = {k: v.default for k, v in inspect.signature(T.get_data_config).parameters.items() if v.default is not inspect.Parameter.empty}
    full_d.update(data_kw)
    full_m = {k: v.default for k, v in inspect.signature(T.get_model_config).parameters.items()}
    full_m.update(model_kw)
    full_t = {k: v.default for k, v in inspect.signature(T.get_trainer_config).parameters.items()}
    full_t.update(trainer_kw)
    base = TrainingJobConfig(dc.DataConfig(train_labels_path=full_d["train_labels_path"], val_labels_path=full_d["val_labels_path"]), mc.ModelConfig(), tc.TrainerConfig())
    tree = attrs.asdict(base)
    # sub-configs the builders always materialise
    tree["trainer_config"]["early_stopping"] = attrs.asdict(tc.EarlyStoppingConfig())
    tree["trainer_config"]["lr_scheduler"] = attrs.asdict(tc.LRSchedulerConfig())
    for arg, paths in DATA_PATHS.items():
        for p in paths:
            set_path(tree, p, full_d[arg])
    if full_d["use_augmentations_train"]:
        tree["data_config"]["augmentation_config"] = attrs.asdict(dc.AugmentationConfig())  # refined by the augmentation sub-check
    for arg, paths in MODEL_PATHS.items():
        for p in paths:
            set_path(tree, p, full_m[arg])
    for arg, paths in TRAINER_PATHS.items():
        for p in paths:
            set_path(tree, p, full_t[arg])
    bb = full_m["backbone_config"]
    if isinstance(bb, str):
        fam, cls = PRESETS[bb]
        tree["model_config"]["backbone_config"][fam] = attrs.asdict(getattr(mc, cls)())
    else:
        (fam, kw), = bb.items()
        base_cls = {"unet": mc.UNetConfig, "convnext": mc.ConvNextConfig, "swint": mc.SwinTConfig}[fam]
        d = attrs.asdict(base_cls())
        d.update(kw)
        tree["model_config"]["backbone_config"][fam] = d
    hd = full_m["head_configs"]
    if isinstance(hd, str):
        tree["model_config"]["head_configs"][hd] = attrs.asdict(getattr(mc, HEADS[hd])())
    elif isinstance(hd, dict):
        (ht, layers), = hd.items()
        d = attrs.asdict(getattr(mc, HEADS[ht])())
        for layer, kw in layers.items():
            d[layer].update(kw)
        tree["model_config"]["head_configs"][ht] = d
    sch = full_t["lr_scheduler"]
    if isinstance(sch, str):
        tree["trainer_config"]["lr_scheduler"][sch] = attrs.asdict({"step_lr": tc.StepLRConfig, "reduce_lr_on_plateau": tc.ReduceLROnPlateauConfig}[sch]())
    elif isinstance(sch, dict):
        for k, v in sch.items():
            if v is not None:
                d = attrs.asdict({"step_lr": tc.StepLRConfig, "reduce_lr_on_plateau": tc.ReduceLROnPlateauConfig}[k]())
                d.update(v)
                tree["trainer_config"]["lr_scheduler"][k] = d
                break
    return norm(tree)


def build(data_kw, model_kw, trainer_kw):
    from omegaconf import OmegaConf
    from sleap_nn import train as T
    from sleap_nn.config.training_job_config import TrainingJobConfig

    d = dict(train_labels_path="tr.slp", val_labels_path="va.slp")
    d.update(data_kw)
    cfg = TrainingJobConfig(T.get_data_config(**d), T.get_model_config(**model_kw), T.get_trainer_config(**trainer_kw)).to_sleap_nn_cfg()
    return cfg, norm(OmegaConf.to_container(cfg, resolve=True))


def rand_model_kw(r):
    kw = {}
    if r.random() < 0.7:
        if r.random() < 0.6:
            kw["backbone_config"] = str(r.choice(list(PRESETS)))
        else:
            fam = str(r.choice(["unet", "convnext", "swint"]))
            sub = {"unet": {"filters": int(r.choice([8, 64])), "max_stride": int(r.choice([8, 32])), "output_stride": int(r.choice([2, 4])), "in_channels": 3},
                   "convnext": {"stem_patch_stride": 4, "max_stride": 32, "output_stride": 2, "in_channels": 3},
                   "swint": {"model_type": str(r.choice(["tiny", "small", "base"])), "max_stride": 32, "output_stride": 4}}[fam]
            keys = list(sub)
            r.shuffle(keys)
            kw["backbone_config"] = {fam: {k: sub[k] for k in keys[: int(r.integers(1, len(keys) + 1))]}}
    ht = str(r.choice(list(HEADS)))
    if r.random() < 0.5:
        kw["head_configs"] = ht
    else:
        conf = {"sigma": float(r.choice([1.5, 2.5])), "output_stride": int(r.choice([2, 4]))}
        if ht != "centroid" and r.random() < 0.5:
            conf["part_names"] = ["a", "b", "c"]
        if ht in ("centroid", "centered_instance") and r.random() < 0.5:
            conf["anchor_part"] = int(r.choice([0, 1, 2]))  # 0 (first node) is a value, not "unset"
        layers = {"confmaps": conf}
        if ht == "bottomup":
            layers["pafs"] = {"sigma": 7.5, "output_stride": int(r.choice([4, 8])), "edges": [["a", "b"], ["b", "c"]]}
            conf["loss_weight"] = float(r.choice([1.0, 0.0, 2.0]))
            layers["pafs"]["loss_weight"] = float(r.choice([0.5, 0.0]))
        kw["head_configs"] = {ht: layers}
    fam = kw.get("backbone_config", "unet")
    fam = fam if isinstance(fam, str) else next(iter(fam))
    if fam.startswith("convnext") and r.random() < 0.4:
        kw["pre_trained_weights"] = "ConvNeXt_Tiny_Weights"
    if fam.startswith("swint") and r.random() < 0.4:
        kw["pre_trained_weights"] = "Swin_T_Weights"
    for a in ("init_weight", "pretrained_backbone_weights", "pretrained_head_weights"):
        if r.random() < 0.3:
            kw[a] = SENTINELS[a][int(r.integers(0, len(SENTINELS[a])))]
    return kw


def gen_cases(ctx):
    idx = 0

    def mine():
        nonlocal idx
        idx += 1
        return idx % ctx.nshards == ctx.shard

    base_model = {"head_configs": "centroid"}
    # singles + pairs
    groups = [("data", DATA_PATHS), ("model", {k: v for k, v in MODEL_PATHS.items() if k != "pre_trained_weights"}), ("trainer", TRAINER_PATHS)]
    singles = [(g, a, v) for g, tbl in groups for a in tbl for v in SENTINELS[a]]
    for g, a, v in singles:
        if mine():
            yield {"kind": "builder", "data": {a: v} if g == "data" else {}, "model": dict(base_model, **({a: v} if g == "model" else {})), "trainer": {a: v} if g == "trainer" else {}}
    r = ctx.rng(20, 0)
    pairs = list(itertools.combinations(range(len(singles)), 2))
    sel = r.permutation(len(pairs))[: (260 if ctx.tier == "quick" else 6000)]
    for j in sel:
        (g1, a1, v1), (g2, a2, v2) = singles[pairs[j][0]], singles[pairs[j][1]]
        if a1 == a2:
            continue
        if mine():
            kw = {"data": {}, "model": dict(base_model), "trainer": {}}
            kw[g1][a1] = v1
            kw[g2][a2] = v2
            yield dict(kind="builder", **kw)
    # presets x heads (strings), exhaustive
    for preset in PRESETS:
        for head in HEADS:
            if mine():
                yield {"kind": "builder", "data": {}, "model": {"backbone_config": preset, "head_configs": head}, "trainer": {}}
    # lr_scheduler forms
    for sch in ["step_lr", "reduce_lr_on_plateau", {"step_lr": {"step_size": 5, "gamma": 0.5}}, {"reduce_lr_on_plateau": {"patience": 3, "factor": 0.3, "min_lr": 1e-6}},
                {"step_lr": None, "reduce_lr_on_plateau": {"cooldown": 2}}, {"reduce_lr_on_plateau": None, "step_lr": {"step_size": 3}},
                {"step_lr": {"gamma": 0.25}, "reduce_lr_on_plateau": None}]:
        if mine():
            yield {"kind": "builder", "data": {}, "model": dict(base_model), "trainer": {"lr_scheduler": sch}}
    # augmentation lists, exhaustive
    for names, which in ((GEOM, "geometry_aug"), (INTENS, "intensity_aug")):
        for L in range(1, len(names) + 1):
            for lst in itertools.permutations(names, L):
                if mine():
                    yield {"kind": "auglist", "which": which, "names": list(lst)}
    for name in GEOM:
        if mine():
            yield {"kind": "auglist", "which": "geometry_aug", "names": name}
    # behavioural: what the configured augmentation actually does to a coordinate-coded image
    affine_lists = [list(l) for L in range(1, 4) for l in itertools.permutations(["rotation", "scale", "translate"], L)] + [["erase_scale"], ["mixup", "rotation"], ["scale", "erase_scale", "translate"]]
    if ctx.tier == "quick":
        affine_lists = [affine_lists[j] for j in ctx.rng(20, 7).permutation(len(affine_lists))[:8]]
    for lst in affine_lists:
        if mine():
            yield {"kind": "augbehaviour", "names": lst}
    for name in INTENS:
        if mine():
            yield {"kind": "auglist", "which": "intensity_aug", "names": name}
    # dict forms of augmentations
    for which, d in (("intensity_aug", {"uniform_noise_min": 0.1, "uniform_noise_p": 1.0, "contrast_p": 0.3}), ("geometry_aug", {"rotation": 45.0, "affine_p": 1.0, "erase_p": 0.5}),
                     ("geometry_aug", {"scale": [0.5, 1.5], "translate_width": 0.05})):
        if mine():
            yield {"kind": "augdict", "which": which, "dict": d}
    # invalid / boundary values
    for case in invalid_cases():
        if mine():
            yield case
    # random full combinations (last: the finite families above always run before the time budget can end the loop)
    for i in range(N_RANDOM[ctx.tier]):
        if not mine():
            continue
        rr = ctx.rng(20, 1, i)
        kw = {"data": {}, "model": rand_model_kw(rr), "trainer": {}}
        for g, tbl in (("data", DATA_PATHS), ("trainer", TRAINER_PATHS)):
            for a in tbl:
                if rr.random() < 0.35:
                    kw[g][a] = SENTINELS[a][int(rr.integers(0, len(SENTINELS[a])))]
        yield dict(kind="builder", **kw)


def invalid_cases():
    for cls, field in [("IntensityConfig", "uniform_noise_p"), ("IntensityConfig", "gaussian_noise_p"), ("IntensityConfig", "contrast_p"), ("IntensityConfig", "brightness_p"),
                       ("GeometricConfig", "affine_p"), ("GeometricConfig", "erase_p"), ("GeometricConfig", "mixup_p")]:
        for v in (-0.1, 1.5, -1e-9, 1.0000001, 100, float("nan"), float("inf"), float("-inf")):  # NaN is not a probability either
            yield {"kind": "invalid", "target": cls, "field": field, "value": v, "valid": False}
        for v in (0.0, 1.0, 0.5):
            yield {"kind": "invalid", "target": cls, "field": field, "value": v, "valid": True}
    for v, ok in ((-0.5, False), (-1.0, False), (float("nan"), False), ("big", False), (1, False), ([0.5, -1.0], False), (0.5, True), (2.0, True), ([0.5, 0.25], True)):
        yield {"kind": "invalid", "target": "PreprocessingConfig", "field": "scale", "value": v, "valid": ok}
    for v, ok in (("huge", False), ("large", False), ("", False), ("tiny", True), ("small", True), ("base", True)):
        yield {"kind": "invalid", "target": "SwinTConfig", "field": "model_type", "value": v, "valid": ok}
    for fam, v, ok in (("convnext", "Swin_T_Weights", False), ("convnext", "nope", False), ("swint", "ConvNeXt_Tiny_Weights", False), ("swint", "Swin_X", False), ("unet", "ConvNeXt_Tiny_Weights", False),
                       ("convnext", "ConvNeXt_Small_Weights", True), ("swint", "Swin_B_Weights", True), ("unet", None, True)):
        yield {"kind": "invalid", "target": "ModelConfig", "field": "pre_trained_weights", "family": fam, "value": v, "valid": ok}
    # every way of passing the attributes: keywords, positionally (None fillers), or positional + one keyword
    for how in ("kw", "pos", "mixed"):
        for combo in itertools.combinations(["unet", "convnext", "swint"], 2):
            yield {"kind": "invalid", "target": "BackboneConfig", "set": list(combo), "how": how, "valid": False}
        for combo in itertools.combinations(list(HEADS), 2):
            yield {"kind": "invalid", "target": "HeadConfig", "set": list(combo), "how": how, "valid": False}
        for one in ["unet", "convnext", "swint"]:
            yield {"kind": "invalid", "target": "BackboneConfig", "set": [one], "how": how, "valid": True}
        for one in HEADS:
            yield {"kind": "invalid", "target": "HeadConfig", "set": [one], "how": how, "valid": True}
    yield {"kind": "invalid", "target": "BackboneConfig", "set": ["unet", "convnext", "swint"], "how": "pos", "valid": False}
    for v, ok in ((0.0, False), (-1e-3, False), (1e-3, True)):
        yield {"kind": "invalid", "target": "OptimizerConfig", "field": "lr", "value": v, "valid": ok}


def cases(ctx):
    yield from gen_cases(ctx)


def directed(ctx):
    yield {"kind": "auglist", "which": "geometry_aug", "names": ["rotation", "scale"]}
    yield {"kind": "builder", "data": {}, "model": {"backbone_config": "unet_medium_rf", "head_configs": "bottomup"}, "trainer": {}}


def check_builder(ctx, case):
    from omegaconf import OmegaConf
    from sleap_nn.config.training_job_config import verify_training_cfg

    small = case
    try:
        cfg, got = build(case["data"], case["model"], case["trainer"])
    except Exception as e:
        bb = case["model"].get("backbone_config")
        if isinstance(bb, str) and bb in PRESETS and PRESETS[bb][1] not in ("UNetConfig", "ConvNextConfig", "SwinTConfig") and "ValidationError" in type(e).__name__:
            ctx.violation("backbone-preset-not-buildable", f"backbone preset '{bb}' cannot be turned into a configuration: {type(e).__name__}: {str(e)[:160]}", small)
        else:
            ctx.violation(f"builder-raises:{type(e).__name__}", f"builders raised {type(e).__name__}: {str(e)[:200]} for {case}", small)
        return ("builder-exc", str(case["model"].get("backbone_config")))
    ctx.count("builder_calls")
    exp = expected_tree({"train_labels_path": "tr.slp", "val_labels_path": "va.slp", **case["data"]}, case["model"], case["trainer"])
    if case["data"].get("use_augmentations_train"):
        exp["data_config"]["augmentation_config"] = got["data_config"].get("augmentation_config")  # decided by the augmentation sub-checks
        if got["data_config"].get("augmentation_config") is None:
            ctx.violation("augmentation-config-missing", "use_augmentations_train=True but augmentation_config is None", small)
    d = diff(got, exp)
    if d:
        ctx.violation("argument-not-reflected", f"builder result differs from schema defaults + supplied values: {d[:4]}", small)
    # normalisation: value-equal, idempotent, stable through a YAML round trip
    try:
        v1 = verify_training_cfg(cfg)
        c1 = norm(OmegaConf.to_container(v1, resolve=True))
        v2 = verify_training_cfg(v1)
        c2 = norm(OmegaConf.to_container(v2, resolve=True))
        from vf import synth

        path = os.path.join(synth.workdir("C20"), f"cfg{os.getpid()}.yaml")
        OmegaConf.save(cfg, path)
        v3 = verify_training_cfg(OmegaConf.load(path))
        c3 = norm(OmegaConf.to_container(v3, resolve=True))
        ctx.count("normalisation_checks")
    except Exception as e:
        ctx.violation(f"normalisation-raises:{type(e).__name__}", f"verify_training_cfg / YAML round trip raised {type(e).__name__}: {str(e)[:200]}", small)
        return None
    for name, c in (("verify(cfg)", c1), ("verify(verify(cfg))", c2), ("verify(load(save(cfg)))", c3)):
        d = diff(c, got)
        if d:
            ctx.violation("normalisation-changes-values", f"{name} differs from cfg: {d[:4]}", small)
    n_args = len(case["data"]) + len(case["model"]) + len(case["trainer"])
    sig = ("builder", tuple(sorted(case["data"].items(), key=str)).__repr__(), repr(sorted(case["model"].items(), key=str)), repr(sorted(case["trainer"].items(), key=str))) if n_args >= 3 else None
    return sig


def enabled_problems(which, names, aug):
    names = [names] if isinstance(names, str) else names
    bad = []
    g, it = aug["geometric"], aug["intensity"]
    for n in names:
        if n == "rotation" and not (g["affine_p"] > 0 and g["rotation"] != 0):
            bad.append(f"rotation disabled (affine_p={g['affine_p']}, rotation={g['rotation']})")
        if n == "scale" and not (g["affine_p"] > 0 and list(g["scale"]) != [1.0, 1.0]):
            bad.append(f"scale disabled (affine_p={g['affine_p']}, scale={g['scale']})")
        if n == "translate" and not (g["affine_p"] > 0 and (g["translate_width"] > 0 or g["translate_height"] > 0)):
            bad.append(f"translate disabled (affine_p={g['affine_p']}, translate=({g['translate_width']},{g['translate_height']}))")
        if n == "erase_scale" and not g["erase_p"] > 0:
            bad.append("erase_scale disabled")
        if n == "mixup" and not g["mixup_p"] > 0:
            bad.append("mixup disabled")
        if n in INTENS and not it[n + "_p"] > 0:
            bad.append(f"{n} disabled")
    return bad


def check_auglist(ctx, case):
    small = case
    kw = {"use_augmentations_train": True, case["which"]: case["names"]}
    try:
        cfg, got = build(kw, {"head_configs": "centroid"}, {})
    except Exception as e:
        ctx.violation(f"builder-raises:{type(e).__name__}", f"builders raised {type(e).__name__}: {str(e)[:200]} for {case}", small)
        return None
    ctx.count("auglist_calls")
    aug = got["data_config"]["augmentation_config"]
    bad = enabled_problems(case["which"], case["names"], aug)
    names = case["names"] if isinstance(case["names"], list) else [case["names"]]
    if bad:
        affine = [n for n in names if n in ("rotation", "scale", "translate")]
        key = "later-affine-name-resets-earlier-one" if len(affine) >= 2 and all(b.split()[0] in ("rotation", "scale", "translate") for b in bad) else "named-augmentation-disabled"
        ctx.violation(key, f"{case['which']}={case['names']}: {bad}", small)
    # nothing that was not named may be switched on
    g, it = aug["geometric"], aug["intensity"]
    extra = []
    if not any(n in ("rotation", "scale", "translate") for n in names) and g["affine_p"] > 0:
        extra.append("affine")
    for n, p in (("erase_scale", g["erase_p"]), ("mixup", g["mixup_p"])):
        if n not in names and p > 0:
            extra.append(n)
    for n in INTENS:
        if n not in names and it[n + "_p"] > 0:
            extra.append(n)
    if extra:
        ctx.violation("unnamed-augmentation-enabled", f"{case['which']}={case['names']} also enables {extra}", small)
    return ("auglist", case["which"], tuple(names)) if len(names) >= 2 else None


def check_augdict(ctx, case):
    import attrs
    from sleap_nn.config import data_config as dc

    kw = {"use_augmentations_train": True, case["which"]: case["dict"]}
    cfg, got = build(kw, {"head_configs": "centroid"}, {})
    ctx.count("augdict_calls")
    exp = norm(attrs.asdict(dc.AugmentationConfig()))
    sub = "intensity" if case["which"] == "intensity_aug" else "geometric"
    exp[sub].update(norm(case["dict"]))
    d = diff(got["data_config"]["augmentation_config"], exp)
    if d:
        ctx.violation("argument-not-reflected", f"augmentation dict not reflected: {d[:4]}", case)
    return ("augdict", case["which"], repr(sorted(case["dict"].items())))


def check_invalid(ctx, case):
    from sleap_nn.config import data_config as dc, model_config as mc, trainer_config as tc

    t = case["target"]

    def make():
        if t in ("IntensityConfig", "GeometricConfig", "PreprocessingConfig"):
            return getattr(dc, t)(**{case["field"]: case["value"]})
        if t == "SwinTConfig":
            return mc.SwinTConfig(model_type=case["value"])
        if t == "OptimizerConfig":
            return tc.OptimizerConfig(lr=case["value"])
        if t == "ModelConfig":
            fam = case["family"]
            bb = mc.BackboneConfig(**{fam: {"unet": mc.UNetConfig, "convnext": mc.ConvNextConfig, "swint": mc.SwinTConfig}[fam]()})
            return mc.ModelConfig(backbone_config=bb, pre_trained_weights=case["value"])
        if t in ("BackboneConfig", "HeadConfig"):
            import attrs

            cls = getattr(mc, t)
            m = {"unet": mc.UNetConfig, "convnext": mc.ConvNextConfig, "swint": mc.SwinTConfig}
            vals = {k: (m[k]() if t == "BackboneConfig" else getattr(mc, HEADS[k])()) for k in case["set"]}
            how = case.get("how", "kw")
            if how == "kw":
                return cls(**vals)
            names = [f.name for f in attrs.fields(cls)]
            last = max(names.index(k) for k in vals)
            if how == "pos":
                return cls(*[vals.get(nm) for nm in names[: last + 1]])
            kw_name = names[last]  # "mixed": everything before the last set attribute positionally, the last one by keyword
            return cls(*[vals.get(nm) for nm in names[:last]], **{kw_name: vals[kw_name]})
        raise ValueError(t)

    try:
        make()
        raised = None
    except Exception as e:
        raised = e
    ctx.count("validation_checks")
    what = f"{t}.{case.get('field', case.get('set'))}={case.get('value', '')!r}" + (f" (attributes passed {case['how']})" if case.get("how") else "")
    if case["valid"] and raised is not None:
        ctx.violation("valid-value-rejected", f"{what} is valid but was rejected: {type(raised).__name__}: {str(raised)[:120]}", case)
    if not case["valid"] and raised is None:
        ctx.violation("invalid-value-accepted", f"{what} is invalid but was accepted", case)
    return ("invalid", t, str(case.get("field", case.get("set"))), repr(case.get("value")), case.get("how"), case["valid"])


def check_augbehaviour(ctx, case):
    """Apply the augmentation the builders configured to a coordinate-coded square image over several
    draws and decode the transform actually applied (rotation angle, scale, translation)."""
    import torch
    from sleap_nn.data.augmentation import apply_geometric_augmentation
    from vf import geom

    names = case["names"]
    cfg, got = build({"use_augmentations_train": True, "geometry_aug": names}, {"head_configs": "centroid"}, {})
    g = dict(got["data_config"]["augmentation_config"]["geometric"])
    if g.get("scale") is not None:
        g["scale"] = tuple(g["scale"])
    if g.get("mixup_lambda") is not None:
        g["mixup_lambda"] = tuple(g["mixup_lambda"])
    H = W = 96
    img = torch.from_numpy(geom.ramp_image_float(H, W)).unsqueeze(0)
    inst = torch.tensor([[[[30.0, 30.0], [60.0, 50.0]]]])
    c = np.array([(W - 1) / 2, (H - 1) / 2])
    seen = {"rotation": 0.0, "scale": 0.0, "translate": 0.0}
    fits = 0
    for seed in range(14):
        torch.manual_seed(1000 + seed)
        out, kp = apply_geometric_augmentation(img.clone(), inst.clone(), **{k: g[k] for k in ("rotation", "scale", "translate_width", "translate_height", "affine_p")})
        fit = geom.fit_affine(*out[0].numpy())
        if fit is None or fit["rms"] > 0.3:
            continue
        fits += 1
        A = fit["A"]
        sc = float(np.sqrt(abs(np.linalg.det(A))))
        ang = float(np.degrees(np.arctan2(A[1, 0], A[0, 0])))
        tau = fit["t"] - (c - A @ c)
        seen["rotation"] = max(seen["rotation"], abs(ang))
        seen["scale"] = max(seen["scale"], abs(sc - 1.0))
        seen["translate"] = max(seen["translate"], float(np.abs(tau).max()))
    ctx.count("augbehaviour_fits", fits)
    if fits < 6:
        ctx.note_inconclusive(f"augmentation behaviour of {names}: only {fits} usable fits")
        return None
    thr = {"rotation": 0.5, "scale": 0.005, "translate": 0.6}
    for n in ("rotation", "scale", "translate"):
        if n in names and seen[n] <= thr[n]:
            ctx.violation("named-augmentation-has-no-effect", f"geometry_aug={names}: '{n}' is named but no draw shows it (max observed {seen[n]:.4g})", case)
        if n not in names and seen[n] > 3 * thr[n]:
            ctx.violation("unnamed-augmentation-has-effect", f"geometry_aug={names}: '{n}' is not named but the applied transform shows it (max observed {seen[n]:.4g})", case)
    return ("augbehaviour", tuple(names)) if len(names) >= 2 else None


def check(ctx, case):
    fn = {"builder": check_builder, "auglist": check_auglist, "augdict": check_augdict, "invalid": check_invalid, "augbehaviour": check_augbehaviour}[case["kind"]]
    sig = fn(ctx, case)
    ctx.tick(sig, sample=case if ctx.evaluations < 5 else None)


def finalize(ctx):
    for k in ("builder_calls", "auglist_calls", "validation_checks", "normalisation_checks"):
        ctx.require(k, 5)


LEVEL_TEXT = ("The real builders, TrainingJobConfig.to_sleap_nn_cfg, verify_training_cfg and the config constructors are called on enumerated / sampled argument "
              "combinations; the resulting tree is compared with an independently built expectation (schema defaults from the attrs classes + signature defaults + supplied "
              "values at documented paths); all augmentation lists and all backbone presets are enumerated; every complete configuration is pushed through normalisation "
              "twice and through a YAML round trip; validated fields get invalid and boundary-valid values.")
LEVEL_NOTE = "Trusted: the argument->path table in vf/props/c20.py (written from the docstrings), attrs.asdict of the schema classes, OmegaConf."
TECHNIQUE = "runtime monitoring: boundary probe on the builders with an independently derived expected tree + metamorphic normalisation checks"
