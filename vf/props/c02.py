"""C02 — single-instance and top-down inference return original-image coordinates.

The real predictors (reader thread, make_pipeline, _predict_generator, inference models, peak
finding, stride/scale/eff_scale/bbox arithmetic) run with self-locating oracle networks
(vf/oracle_net.py) on coordinate-coded videos; yielded coordinates are compared with the scene."""
import numpy as np

from vf import e2e, oracle_net as on

LEVEL = "exploration"
RULE = ("seeded configurations: model {single-instance, top-down (centroid -> crop -> centred instance)} x image 64-235 px non-square x (max_height,max_width) in {None, larger, smaller, "
        "other aspect} x input scales {1,0.5,0.75} (both stages) x max_stride {8,16,32} x output strides {1,2,4,8} x crop {48..128} x batch 1-5 x refinement {None, integral} x anchor "
        "{None, node, missing node} x 1-4 separated animals with missing nodes x provider {LabelsReader, VideoReader}; two videos of different size in one labels file. "
        "non-trivial = configuration with eff_scale != 1 or input scale != 1 or stride > 1; distinct by the configuration tuple")
ASSUMPTIONS = ["the oracle network is part of the trusted base; a frame whose geometry it cannot fit makes the case inconclusive",
               "RGB pipelines (is_rgb=True); keypoints >= 20 px from the border, animals >= 2.6 body sizes apart, nodes of an animal >= 9 px apart",
               "tolerance per axis in original pixels: (0.5*stride + a)/(input_scale*eff_scale) with a = 0.35 + the explicit integer-size rounding of the resizing steps (vf/e2e.py:tol); total up-scaling <= 2.5"]
SHARDS = {"quick": 8, "thorough": 16}
N = {"quick": 96, "thorough": 48000}
BUDGET = {"quick": 110, "thorough": 600}
TIMEOUT = {"quick": 800, "thorough": 3400}
SELF_SHARDED = True
KEY_LABELS = "labelsreader-path-skips-scaling-and-stride-padding"


def gen_case(ctx, i):
    r = ctx.rng(2, i)
    model = "single" if i % 2 == 0 else "topdown"
    H, W = int(r.integers(96, 230)), int(r.integers(96, 230))
    if abs(H - W) < 12:
        W = min(234, W + 24)
    mode = str(r.choice(["none", "none", "larger", "smaller", "aspect"]))
    if mode == "larger":
        f = r.uniform(1.05, 1.8)
        max_hw = [int(H * f) + int(r.integers(0, 7)), int(W * f) + int(r.integers(0, 7))]
    elif mode == "smaller":
        f = r.uniform(0.55, 0.95)
        max_hw = [int(H * f), int(W * f * r.uniform(0.9, 1.1))]
    elif mode == "aspect":
        max_hw = [int(H * r.uniform(0.7, 1.6)), int(W * r.uniform(0.7, 1.6))]
    else:
        max_hw = [None, None]
    c = {"i": i, "model": model, "H": H, "W": W, "max_hw": max_hw, "max_stride": int(r.choice([8, 16, 32])), "batch": int(r.integers(1, 6)),
         "refinement": [None, "integral"][int(r.integers(0, 2))], "n_frames": int(r.integers(2, 5)), "seed": int(r.integers(0, 2 ** 31)),
         "n_nodes": int(r.integers(2, 5)), "two_videos": bool(r.random() < 0.3 and mode != "none"), "margin": float(r.choice([20.0, 20.0, 4.0]))}
    if c["two_videos"] and r.random() < 0.6:
        c["max_hw"] = "fit-largest"  # size matching to the largest video: one video keeps eff_scale 1, the other is rescaled
    if model == "single":
        c.update(scale=float(r.choice([1.0, 0.5, 0.75])), stride=int(r.choice([1, 2, 4, 8])), n_animals=1, missing_p=float(r.choice([0.0, 0.3])))
    else:
        c.update(c_scale=float(r.choice([1.0, 0.5, 0.75])), i_scale=float(r.choice([1.0, 0.5, 0.75])), c_stride=int(r.choice([2, 4, 8])), i_stride=int(r.choice([1, 2, 4])),
                 n_animals=int(r.integers(1, 5)), missing_p=float(r.choice([0.0, 0.25])), anchor=[None, 0, "missing"][int(r.integers(0, 3))], crop=int(r.choice([64, 96, 128])))
        if c["refinement"] == "integral":
            c["margin"] = 20.0  # integral refinement of a *centroid* near the image border is biased (known finding) and would shift the crop off the animal
        if r.random() < 0.35:  # frames without any animal mixed into the video (they share batches with populated frames)
            c.update(empty_p=0.4, n_frames=int(r.integers(3, 7)))
    return c


def directed(ctx):
    yield {"i": -1, "model": "single", "H": 140, "W": 100, "max_hw": [None, None], "max_stride": 16, "batch": 2, "refinement": None, "n_frames": 3, "seed": 7, "n_nodes": 3,
           "two_videos": False, "scale": 0.5, "stride": 2, "n_animals": 1, "missing_p": 0.0}
    yield {"i": -2, "model": "topdown", "H": 200, "W": 160, "max_hw": [None, None], "max_stride": 16, "batch": 2, "refinement": None, "n_frames": 2, "seed": 8, "n_nodes": 3,
           "two_videos": False, "c_scale": 0.5, "i_scale": 1.0, "c_stride": 2, "i_stride": 2, "n_animals": 2, "missing_p": 0.0, "anchor": 0, "crop": 64}
    yield from directed_border()


def directed_border():
    # known finding: integral refinement near the border of a 7x4-cell map (186x118 frame, size-matched to 103x63, scale 0.5, stride 8)
    yield {"i": -3, "model": "single", "H": 186, "W": 118, "max_hw": [103, 63], "max_stride": 8, "batch": 3, "refinement": "integral", "n_frames": 4, "seed": 906196899,
           "n_nodes": 4, "two_videos": False, "scale": 0.5, "stride": 8, "n_animals": 1, "missing_p": 0.3, "fixed_margin": True}


def cases(ctx):
    for i in range(N[ctx.tier]):
        if i % ctx.nshards == ctx.shard:
            yield gen_case(ctx, i)


def build_scene(case, name):
    r = np.random.default_rng(case["seed"])
    vids = [(case["H"], case["W"], case["n_frames"])]
    if case["two_videos"]:
        if case["max_hw"] == "fit-largest":
            vids.append((max(96, int(case["H"] * 0.8)), max(96, int(case["W"] * 0.7)), 2))
            case["max_hw"] = [case["H"], case["W"]]
        else:
            vids.append((max(96, case["H"] - 30), min(234, case["W"] + 20), 2))
    poses = {}
    for v, (H, W, n) in enumerate(vids):
        for f in range(n):
            # near-border option: keypoints may come close to the border but stay within half a cell of the confidence-map grid (the grid's last row /
            # column sits up to a cell inside the frame; a keypoint beyond it by more than half a cell cannot be located to half a cell by any decoder)
            eff_ = e2e.eff_scale_for(H, W, tuple(case["max_hw"]) if isinstance(case["max_hw"], (list, tuple)) else (case["H"], case["W"]))
            cell_ = max(case["stride"] / case["scale"], 0) / eff_ if case["model"] == "single" else max(case["c_stride"] / case["c_scale"], case["i_stride"] / case["i_scale"]) / eff_
            P = e2e.make_poses(r, H, W, case["n_nodes"], case["n_animals"], missing_p=case["missing_p"], margin=case.get("margin", 20.0) if case.get("fixed_margin") else min(max(case.get("margin", 20.0), 1.1 * cell_ + 1.0), max(20.0, min(H, W) / 2.0 - 24.0)))
            if case["model"] == "topdown" and len(P) > 1:
                # well-separated premise at the centroid stage: the ideal centroid bumps (sigma 1.5 cells) of two animals must stay two peaks,
                # i.e. the centroids are >= 4.5 sigma apart on the centroid grid; animals that are closer are left out of the frame
                a_ = 0 if case.get("anchor") in (0, "missing") else None
                need_px = 4.5 * 1.5 * case["c_stride"] / (case["c_scale"] * e2e.eff_scale_for(H, W, tuple(case["max_hw"]) if case["max_hw"] != "fit-largest" else (case["H"], case["W"])))
                kept = []
                for p_ in P:
                    c_ = on.centroid_of(p_, a_)
                    if all(np.hypot(*(c_ - on.centroid_of(q_, a_))) >= need_px for q_ in kept):
                        kept.append(p_)
                P = kept
            if case.get("empty_p") and f != n - 1 and r.random() < case["empty_p"]:
                P = []  # an empty frame; the last frame of every video stays populated, so an empty frame always precedes a populated one
            if case.get("anchor") == "missing" and P:
                P[0][0] = np.nan
                if np.isnan(P[0]).sum() // 2 > case["n_nodes"] - 2 and case["n_nodes"] > 2:
                    P[0][1:] = np.where(np.isnan(P[0][1:]), P[0][1:], P[0][1:])
            poses[(v, f)] = P
    if case["model"] == "topdown":
        # the crop must contain the whole animal around its centroid (premise of top-down inference)
        anchor = 0 if case.get("anchor") in (0, "missing") else None
        reach = 0.0
        for (v, f), P in poses.items():
            eff = e2e.eff_scale_for(vids[v][0], vids[v][1], tuple(case["max_hw"]))
            for p in P:
                if np.isnan(p).all():
                    continue
                c = on.centroid_of(p, anchor)
                reach = max(reach, np.nanmax(np.abs(p - c)) * eff * case["i_scale"])
        need = 2 * (reach + 3 * 1.5 * case["i_stride"] + 4)
        case["crop"] = int(max(case["crop"], -(-need // 16) * 16))
    sf = e2e.SceneFiles("C02", name, vids, case["n_nodes"], None, poses)
    if case["two_videos"]:  # frames of the two videos interleaved in random order within the labels file
        order = [sf.labeled_keys[j] for j in r.permutation(len(sf.labeled_keys))]
        sf.labels_path = sf.write_labels(order, "labels_shuffled.slp", keep_empty=False)
    return sf, vids


def records(case, outs):
    """Flatten predictor outputs into [(video_idx, frame_idx, points (n_nodes,2), values)]."""
    recs = []
    for o in outs:
        if case["model"] == "single":
            for vi, fi, pk, pv in zip(o["video_idx"], o["frame_idx"], o["pred_instance_peaks"], o["pred_peak_values"]):
                recs.append((int(vi), int(fi), np.asarray(pk, float), np.asarray(pv, float)))
        else:
            for vi, fi, pk, pv, bb in zip(o["video_idx"], o["frame_idx"], o["pred_instance_peaks"], o["pred_peak_values"], o["instance_bbox"]):
                recs.append((int(vi), int(fi), np.asarray(pk, float) + np.asarray(bb, float).reshape(4, 2)[0], np.asarray(pv, float)))
    return recs


def check(ctx, case):
    import shutil

    name = f"c{case['i']}_{abs(hash(str(case['seed']))) % 10 ** 6}"
    sf, vids = build_scene(case, name)
    small = dict(case)
    max_hw = tuple(case["max_hw"])
    anchor = 0 if case.get("anchor") in (0, "missing") else None
    results = {}
    inconclusive = False
    try:
        for provider in ("VideoReader", "LabelsReader"):
            log = []
            if case["model"] == "single":
                pred, net = e2e.single_predictor(sf, case["stride"], 1.5, case["scale"], max_hw, case["max_stride"], case["batch"], case["refinement"], log)
                nets = [net]
            else:
                pred, cnet, inet = e2e.topdown_predictor(sf, case["c_stride"], case["i_stride"], 1.5, case["c_scale"], case["i_scale"], max_hw, case["max_stride"], case["crop"],
                                                         case["batch"], case["refinement"], anchor, None, log)
                nets = [cnet, inet]
            try:
                outs = e2e.run(pred, provider, sf, video=0)
            except TimeoutError as e:
                ctx.violation("predict-hangs", f"{provider}: {e}", small)
                continue
            except Exception as e:
                import traceback

                fr = [f for f in traceback.extract_tb(e.__traceback__) if "/sleap_nn/" in f.filename]
                if not fr:
                    raise
                ctx.violation(f"exception:{type(e).__name__}@{fr[-1].name}", f"{provider} {case['model']}: {type(e).__name__}: {str(e)[:200]}", small)
                continue
            ctx.count(f"runs:{case['model']}:{provider}")
            ctx.count("network_calls", len(log))
            bad_fit = [l for l in log if not l["ok"]]
            if bad_fit:
                ctx.count("unlocatable_inputs", len(bad_fit))
                if any("axis-aligned" in l["why"] for l in bad_fit):
                    ctx.violation("network-input-geometry", f"{provider}: {bad_fit[0]['why']}", small)
                else:
                    inconclusive = True
            for net in nets:
                if net.contract_violations:
                    key = KEY_LABELS if provider == "LabelsReader" and case["model"] == "single" else "network-input-contract"
                    ctx.violation(key, f"{provider} {case['model']}: {net.contract_violations[0]}", small)
            recs = records(case, outs)
            results[provider] = recs
            keys = sf.labeled_keys if provider == "LabelsReader" else [(0, f) for f in range(vids[0][2])]
            check_records(ctx, case, small, sf, vids, provider, recs, keys, max_hw, log)
        # providers agree (frames of video 0 that both delivered)
        if len(results) == 2 and not inconclusive:
            a = {(v, f): [] for v, f, _, _ in results["VideoReader"]}
            for v, f, p, _ in results["VideoReader"]:
                a[(v, f)].append(p)
            b = {}
            for v, f, p, _ in results["LabelsReader"]:
                b.setdefault((v, f), []).append(p)
            for k in a:
                if k in b and len(a[k]) == len(b[k]):
                    ctx.count("provider_agreement_checks")
                    A, Bm = np.stack(a[k]), np.stack(b[k])
                    # order-insensitive comparison through nearest instance
                    for p in A:
                        d = [np.nanmax(np.abs(p - q)) if np.array_equal(np.isnan(p), np.isnan(q)) else np.inf for q in Bm]
                        if min(d) > 2 * tol_of(case, sf, vids, k[0], max_hw) + 1e-6:
                            ctx.violation("providers-disagree", f"frame {k}: LabelsReader and VideoReader answers differ by {min(d):.2f} px", small)
                            break
    finally:
        shutil.rmtree(sf.dir, ignore_errors=True)
    if inconclusive:
        ctx.note_inconclusive("oracle network could not locate some inputs")
    eff = e2e.eff_scale_for(case["H"], case["W"], max_hw)
    nontriv = eff != 1.0 or case.get("scale", 1.0) != 1.0 or case.get("c_scale", 1.0) != 1.0 or case.get("i_scale", 1.0) != 1.0 or case.get("stride", case.get("i_stride", 1)) > 1
    sig = tuple(sorted((k, str(v)) for k, v in case.items() if k not in ("i", "seed"))) if nontriv else None
    ctx.tick(sig, sample={"case": small, "eff_scale": eff} if ctx.evaluations < 3 else None)


def tol_of(case, sf, vids, v, max_hw):
    H, W = vids[v][0], vids[v][1]
    if case["model"] == "single":
        return e2e.tol(case["stride"], H, W, max_hw, case["scale"])
    return e2e.tol(case["i_stride"], H, W, max_hw, case["i_scale"])


def check_records(ctx, case, small, sf, vids, provider, recs, keys, max_hw, log=()):
    by = {}
    for v, f, p, val in recs:
        by.setdefault((v, f), []).append((p, val))
    for key in keys:
        gt = [p for p in sf.scene.poses[sf.code_of[key]] if not np.isnan(p).all()]
        got = by.get(key, [])
        tol = tol_of(case, sf, vids, key[0], max_hw)
        ctx.count("frames_checked")
        if not gt:
            ctx.count("empty_frames_checked")
        if case["model"] == "single":
            if len(got) != 1:
                ctx.violation("record-count", f"{provider}: frame {key} yielded {len(got)} records (expected 1)", small)
                continue
        else:
            if len(got) != len(gt):
                ctx.violation("record-count", f"{provider}: frame {key} yielded {len(got)} instances for {len(gt)} labelled animals", small)
                continue
        # assign predictions to animals (nearest by mean distance over commonly visible nodes)
        used = set()
        for g in gt:
            best, bj = np.inf, None
            for j, (p, val) in enumerate(got):
                if j in used:
                    continue
                m = ~np.isnan(g).any(-1) & ~np.isnan(p).any(-1)
                d = np.abs(p[m] - g[m]).max() if m.any() else 1e6
                if d < best:
                    best, bj = d, j
            if bj is None:
                continue
            used.add(bj)
            p, val = got[bj]
            vis = ~np.isnan(g).any(-1)
            ctx.count("keypoints_checked", int(vis.sum()))
            pn = np.isnan(p).any(-1)
            if (pn != ~vis).any():
                if (pn & vis).any():
                    ctx.violation("visible-keypoint-missing", f"{provider}: frame {key}: visible keypoints {np.where(pn & vis)[0].tolist()} came back NaN", small)
                else:
                    ctx.violation("invisible-keypoint-predicted", f"{provider}: frame {key}: invisible keypoints {np.where(~pn & ~vis)[0].tolist()} came back with coordinates", small)
                continue
            if (~vis).any() and np.any(np.nan_to_num(val[~vis]) != 0):
                ctx.violation("invisible-keypoint-value", f"{provider}: frame {key}: invisible keypoints have non-zero values {val[~vis].tolist()}", small)
            err = np.abs(p[vis] - g[vis]).max() if vis.any() else 0.0
            if err > tol + 1e-6:
                key_ = KEY_LABELS if (provider == "LabelsReader" and case["model"] == "single" and (case["scale"] != 1.0)) else "coordinates-off"
                if case["model"] == "single" and case["refinement"] == "integral":
                    # known mechanism: the 5x5 refinement window is zero-padded outside the map, so a keypoint within two cells of the map border is
                    # pulled inwards; accepted only if *every* offending node has a truncated window and the answer equals that model's answer
                    ent = [l for l in log if l.get("code_id") == sf.code_of[key] and l.get("ok")]
                    if ent:
                        model, trunc = e2e.integral_border_model(ent[-1], g, case["stride"], 1.5)
                        bad = vis & (np.abs(p - g).max(-1) > tol + 1e-6)
                        slack = tol - 0.5 * case["stride"] / (case["scale"] * e2e.eff_scale_for(vids[key[0]][0], vids[key[0]][1], max_hw)) + 0.05 * tol
                        if bad.any() and trunc[bad].all() and np.abs(p[bad] - model[bad]).max() <= slack:
                            key_ = e2e.KEY_BORDER
                ctx.violation(key_, f"{provider} {case['model']}: frame {key}: predicted keypoints differ from the labelled ones by {err:.2f} px (tolerance {tol:.2f}); "
                                    f"pred {np.round(p[vis][:2], 1).tolist()} vs gt {g[vis][:2].tolist()}", small)
    extra = set(by) - set(keys)
    if extra:
        ctx.violation("record-for-unknown-frame", f"{provider}: records for frames {sorted(extra)[:3]} that were not requested", small)


def finalize(ctx):
    for k in ("runs:single:VideoReader", "runs:single:LabelsReader", "runs:topdown:VideoReader", "runs:topdown:LabelsReader"):
        ctx.require(k, 2)
    ctx.require("keypoints_checked", 50)
    ctx.require("network_calls", 20)


LEVEL_TEXT = ("Real SingleInstancePredictor / TopDownPredictor objects (real reader threads, make_pipeline for both providers, _predict_generator, inference models) run on "
              "coordinate-coded videos with oracle networks that render the ideal maps for the image they actually receive; every yielded coordinate is compared with the scene "
              "ground truth within half an output cell, NaN/0 for invisible nodes, one record per animal/frame, and the two providers must agree. Exploration over seeded configurations.")
LEVEL_NOTE = "Trusted: vf/oracle_net.py (its geometry fit is itself monitored: unlocatable inputs make the run inconclusive), vf/refmodels, sleap-io file round trip."
TECHNIQUE = "runtime monitoring: self-locating oracle network at the model boundary + ground-truth comparison at the predictor output"
