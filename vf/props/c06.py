"""C06 — multi-peak detection vs a brute-force strict-8-neighbour scan; batch independence;
integral refinement keeps number/order/indices and moves each point <= patch/2."""
import numpy as np

from vf.core import unjson_array
from vf.props import peaks_common as pc

LEVEL = "exploration"
RULE = ("seeded maps: kinds {uniform, smoothed, bumps, quantised ties/plateaus, constant, signed, border/corner maxima, 1x1/1xN/Nx1, scaled to |v|<=100, sparse} "
        "x batch 1-4 x channels 1-5 x thresholds {-1,0,0.2,0.5,0.99,>max} x patch {2,3,4,5,7}; non-trivial = map batch with >=2 oracle peaks or a "
        "tie/plateau/border/tiny kind; distinct by (kind, shape, threshold, patch, n_peaks bucket)")
ASSUMPTIONS = ["|values| <= 100 (kornia's geodesic dilation border is -1e4)", "integral_patch_size >= 2 (a 1-pixel patch has a zero-extent crop box)",
               "refinement bound asserted for thresholds >= 0 (a peak value > 0 guarantees a non-zero normaliser on same-sign patches)"]
SHARDS = {"quick": 4, "thorough": 16}
N = {"quick": 4000, "thorough": 900000}
BUDGET = {"quick": 100, "thorough": 600}
TIMEOUT = {"quick": 600, "thorough": 2400}
SELF_SHARDED = True
KEY_MIXED = "integral-refinement-unbounded-on-mixed-sign-patch"
THRS = [-1.0, 0.0, 0.2, 0.5, 0.99, 1e9]


def gen_case(ctx, i):
    r = ctx.rng(6, i)
    kind = pc.KINDS[i % len(pc.KINDS)]
    maps = pc.gen_maps(r, kind)
    thr = float(THRS[int(r.integers(0, len(THRS)))])
    patch = int(r.choice([2, 3, 4, 5, 7]))
    if i % 40 == 7:  # a large batch: 500-2000 local peaks refined in one call (counts that are not multiples of a block size)
        kind = "many"
        maps = r.random((int(r.integers(6, 11)), int(r.integers(6, 11)), int(r.integers(10, 15)), int(r.integers(10, 15))))
        if (i // 40) % 20 == 1:  # many mid-size noise maps: more than 4096 peaks in one call spread over several samples and channels
            maps = r.random([(6, 4, 48, 48), (4, 6, 40, 56), (3, 8, 48, 44)][int(r.integers(0, 3))])  # small maps: refinement copies a whole map per peak
        thr = float(r.choice([0.0, 0.2, 0.5]))
    if i % 400 == 13:  # a map with more than 512*512 cells carrying plateaus and ties (large inputs may take another code path)
        kind = "huge"
        shp = [(1, 1, 520, 520), (1, 1, 450, 640), (1, 1, 1, 300000), (1, 2, 524, 516)][int(r.integers(0, 4))]
        maps = np.zeros(shp)
        Hh, Ww = shp[-2:]
        for c_ in range(shp[1]):
            for _ in range(40):  # isolated cells, tied neighbour pairs and small plateaus; few peaks: refinement copies the whole map once per peak
                y_, x_ = int(r.integers(0, Hh)), int(r.integers(0, Ww))
                v_ = float(r.choice([0.5, 0.75, 1.0]))
                maps[0, c_, y_, x_] = v_
                if r.random() < 0.5 and x_ + 1 < Ww:
                    maps[0, c_, y_, x_ + 1] = v_
                if r.random() < 0.2 and y_ + 1 < Hh:
                    maps[0, c_, y_ + 1, x_] = v_
            maps[0, c_, -1, : min(Ww, 40)] = 0.6  # a constant strip on the border
        thr = float(r.choice([0.0, 0.2]))
    f64 = bool(r.random() < 0.15) and kind != "huge"  # (perturbing every cell of a 300 k-cell map would create ~30 k peaks; refinement copies the map once per peak)
    if f64:  # float64 maps whose neighbouring cells differ by less than float32 resolution (near-ties that only float64 arithmetic orders)
        maps = maps.astype(np.float64) + r.integers(0, 7, maps.shape) * 1e-10  # non-negative: same-sign patches stay same-sign
    return {"i": i, "kind": kind, "thr": thr, "patch": patch, "maps": maps, "solo": bool(i % 3 == 0), "f64": f64}


def directed(ctx):
    # mixed-sign patch (known finding): a peak surrounded by negative side lobes summing to ~ -peak
    m = np.zeros((1, 1, 7, 7), np.float32)
    m[0, 0, 3, 3] = 1.0
    m[0, 0, 3, 4] = -0.6
    m[0, 0, 2, 3] = -0.39
    yield {"i": -1, "kind": "directed-mixed", "thr": 0.2, "patch": 3, "maps": m, "solo": True}
    m2 = np.zeros((2, 2, 5, 5), np.float32)
    m2[0, 1, 0, 0] = 1.0
    m2[1, 0, 4, 4] = 0.7
    m2[1, 0, 4, 2] = 0.7
    m2[1, 1, 2, 2] = 0.5
    m2[1, 1, 2, 3] = 0.5  # plateau: neither is a strict maximum
    yield {"i": -2, "kind": "directed-ties", "thr": 0.2, "patch": 5, "maps": m2, "solo": True}


def cases(ctx):
    for i in range(N[ctx.tier]):
        if i % ctx.nshards == ctx.shard:
            yield gen_case(ctx, i)


def as_set(pts, vals, si, ci):
    out = []
    for p, v, s, c in zip(pts.tolist(), vals.tolist(), si.tolist(), ci.tolist()):
        out.append((int(s), int(c), p[1], p[0], v))
    return out


def check(ctx, case):
    import torch
    from sleap_nn.inference import peak_finding as pf

    dt = np.float64 if case.get("f64") else np.float32
    maps = case["maps"] if isinstance(case["maps"], np.ndarray) else unjson_array(case["maps"], dt)
    maps = np.ascontiguousarray(maps, dtype=dt)
    if case.get("f64"):
        ctx.count("float64_cases")
    S, C, H, W = maps.shape
    thr, patch = case["thr"], case["patch"]
    small = dict(case)
    small["maps"] = maps
    t = torch.from_numpy(maps.copy())
    pts, vals, si, ci = pf.find_local_peaks_rough(t, threshold=thr)
    ctx.count("rough_calls")
    if not (pts.ndim == 2 and pts.shape[1] == 2 and len(pts) == len(vals) == len(si) == len(ci)):
        ctx.violation("return-shape", f"inconsistent return shapes {tuple(pts.shape)}, {tuple(vals.shape)}, {tuple(si.shape)}, {tuple(ci.shape)}", small)
        ctx.tick()
        return
    got = as_set(pts, vals, si, ci)
    # the threshold is compared in the map's own precision (a float32 cell equal to float32(thr) does not *exceed* thr)
    oracle = pc.brute_local_peaks(maps.astype(np.float64), float(dt(thr)))
    got_cells = [(s, c, int(y), int(x)) for s, c, y, x, v in got]
    ctx.count("oracle_peaks", len(oracle))
    if len(oracle) > 512:
        ctx.count("calls_with_more_than_512_peaks")
    if len(oracle) > 4096:
        ctx.count("calls_with_more_than_4096_peaks")
    if H * W > 512 * 512:
        ctx.count("maps_larger_than_512x512")
    if any(float(int(y)) != y or float(int(x)) != x for s, c, y, x, v in got):
        ctx.violation("non-integral-rough", "rough peaks are not grid cells", small)
    elif len(set(got_cells)) != len(got_cells):
        ctx.violation("duplicate-peak", "a cell is returned twice", small)
    elif set(got_cells) != oracle:
        extra = sorted(set(got_cells) - oracle)[:3]
        miss = sorted(oracle - set(got_cells))[:3]
        ctx.violation("peak-set", f"returned cells != strict 8-neighbour maxima above {thr}: extra (s,c,y,x)={extra} missing={miss}", small)
    else:
        bad = [(s, c, y, x, v) for s, c, y, x, v in got if not (0 <= s < S and 0 <= c < C) or maps[s, c, int(y), int(x)] != dt(v)]
        if bad:
            ctx.violation("peak-value", f"reported value differs from the map at the peak: {bad[:2]}", small)
    # batch independence (rough): each map alone
    if case.get("solo"):
        for s in range(S):
            for c in range(C):
                p1, v1, s1, c1 = pf.find_local_peaks_rough(torch.from_numpy(maps[s:s + 1, c:c + 1].copy()), threshold=thr)
                ctx.count("solo_calls")
                alone = sorted((int(p[1]), int(p[0])) for p in p1.tolist())
                inb = sorted((y, x) for (ss, cc, y, x) in got_cells if ss == s and cc == c)
                if alone != inb:
                    ctx.violation("batch-dependence", f"peaks of map (s={s},c={c}) differ between batch {inb[:4]} and solo call {alone[:4]}", small)
    # refinement
    n_nt = len(oracle)
    if len(pts) > 0:
        rp, rv, rs, rc = pf.find_local_peaks(torch.from_numpy(maps.copy()), threshold=thr, refinement="integral", integral_patch_size=patch)
        ctx.count("refine_calls")
        if len(rp) != len(pts) or not (torch.equal(rs, si) and torch.equal(rc, ci)) or not torch.equal(rv, vals):
            ctx.violation("refine-changes-peaks", f"integral refinement changed number/order/indices/values of peaks ({len(pts)} -> {len(rp)})", small)
        else:
            d = (rp - pts).numpy().astype(np.float64)
            for j in range(len(pts)):
                x, y = int(pts[j, 0]), int(pts[j, 1])
                s, c = int(si[j]), int(ci[j])
                pos, neg = pc.patch_signs(maps[s, c], x, y, patch)
                ok = np.all(np.isfinite(d[j])) and np.all(np.abs(d[j]) <= patch / 2 + 1e-4)
                ctx.count("refined_points")
                if not ok:
                    if pos and neg:
                        ctx.violation(KEY_MIXED, f"refined offset {d[j].tolist()} exceeds patch/2={patch / 2} on a patch with mixed signs", small)
                    elif thr >= 0:
                        ctx.violation("refine-bound", f"refined offset {d[j].tolist()} exceeds patch/2={patch / 2} at (s={s},c={c},x={x},y={y}) on a same-sign patch", small)
                    else:
                        ctx.count("refine_unbounded_negative_threshold")
            # batch independence of the refined points
            if case.get("solo"):
                for s in range(S):
                    for c in range(C):
                        idx = [j for j in range(len(pts)) if int(si[j]) == s and int(ci[j]) == c]
                        if not idx:
                            continue
                        q = pf.find_local_peaks(torch.from_numpy(maps[s:s + 1, c:c + 1].copy()), threshold=thr, refinement="integral", integral_patch_size=patch)[0]
                        ctx.count("solo_refine_calls")
                        a = np.array(sorted(map(tuple, np.round(q.numpy().astype(np.float64), 4).tolist())))
                        b = np.array(sorted(map(tuple, np.round(rp[idx].numpy().astype(np.float64), 4).tolist())))
                        fin = np.isfinite(a).all() and np.isfinite(b).all()
                        if a.shape != b.shape or (fin and np.abs(a - b).max() > 2e-3) or (not fin and not np.array_equal(np.isnan(a), np.isnan(b))):
                            ctx.violation("refine-batch-dependence", f"refined peaks of map (s={s},c={c}) differ between batch and solo call", small)
    interesting = n_nt >= 2 or case["kind"] in ("quantised", "border", "tiny", "constant")
    sig = (case["kind"], H, W, thr, patch, min(n_nt, 8), bool(case.get("f64"))) if interesting else None
    ctx.tick(sig, sample={"kind": case["kind"], "shape": [S, C, H, W], "thr": thr, "patch": patch, "oracle_peaks": sorted(oracle)[:6]} if case["i"] in (0, 1, 2, 3) else None)


def finalize(ctx):
    if ctx.tier == "thorough" and ctx.shard == 0:  # ambient contracts while the repository's own pinned tests run
        from vf import ambient

        ambient.run_tests(ctx, "C06", ["tests/inference/test_peak_finding.py"], ["find_local_peaks_rough"])
    ctx.require("rough_calls", 10)
    ctx.require("refined_points", 10)
    ctx.require("solo_calls", 10)
    ctx.require("float64_cases", 5)
    ctx.require("calls_with_more_than_512_peaks", 2)


LEVEL_TEXT = ("Every real find_local_peaks_rough / find_local_peaks call on seeded maps is compared with a brute-force neighbour scan (soundness, completeness, "
              "uniqueness, indices, values), with per-map solo calls (batch independence, rough and refined) and with the rough call (refinement keeps "
              "number/order/indices, offset <= patch/2). Exploration; the oracle is exact.")
LEVEL_NOTE = "Trusted: numpy brute-force scan (vf/props/peaks_common.py). |values| <= 100, patch >= 2."
TECHNIQUE = "runtime monitoring: boundary probe + brute-force reference oracle + metamorphic batch-independence"
