"""C04 — images and keypoints stay registered through all geometric preprocessing.

Images are coordinate-coded ramps (vf/geom.py): from the *output* image an affine map
orig = A p + t is fitted on intact pixels, so the place where the content of a labelled
keypoint went is known independently of the returned keypoints."""
import os
import shutil

import numpy as np

from vf import geom

LEVEL = "exploration"
RULE = ("seeded cases over the functional API {apply_sizematcher, apply_resizer, apply_pad_to_stride, generate_crops, apply_geometric_augmentation (affine / erase / mixup), "
        "apply_intensity_augmentation, find_instance_crop_size} and the four Dataset classes end to end (augmentation on/off): image sizes 32-235 px, aspect 1:3..3:1, max sizes "
        "smaller/larger/other aspect, scales 0.25-2, max_stride 1-64, crop sizes and centroids incl. near borders, rotation <= 180 deg, scale ranges, translation <= 0.3, NaN keypoints, RGB and grayscale (Datasets). "
        "non-trivial = non-identity geometry with >= 1 visible keypoint whose neighbourhood stays inside the output; distinct by (family, sizes, parameters)")
ASSUMPTIONS = ["total up-scaling factor <= 2.5 (the half-pixel-centre convention of resizing alone shifts content by 0.5(s-1) output pixels)",
               "RGB pipelines directly; grayscale Dataset pipelines are decoded from two runs (x-coded and y-coded video) under the same torch seeds; the fit must use >= 12 intact pixels with rms residual < 0.35 px, otherwise the case is inconclusive",
               "registration tolerance: 1 output pixel, plus the explicit integer-size rounding of resizing (frac(W*scale) for apply_resizer, 0.5 px for the size matcher)"]
SHARDS = {"quick": 8, "thorough": 16}
N = {"quick": 2200, "thorough": 560000}
BUDGET = {"quick": 110, "thorough": 600}
TIMEOUT = {"quick": 700, "thorough": 3000}
SELF_SHARDED = True
FAMILIES = ["sizematch", "resize", "pad", "crop", "geo_aug", "geo_aug", "int_aug", "crop_size", "dataset", "dataset", "erase_mixup"]


def rand_pts(r, n, W, H, margin=6, nan_p=0.15):
    p = np.stack([r.uniform(margin, W - 1 - margin, n), r.uniform(margin, H - 1 - margin, n)], -1)
    p[r.random(n) < nan_p] = np.nan
    return p


def gen_case(ctx, i):
    r = ctx.rng(4, i)
    fam = FAMILIES[i % len(FAMILIES)]
    H, W = int(r.integers(32, 200)), int(r.integers(32, 200))
    if r.random() < 0.3:
        H, W = (int(r.integers(32, 70)), int(r.integers(150, 230))) if r.random() < 0.5 else (int(r.integers(150, 230)), int(r.integers(32, 70)))
    c = {"i": i, "family": fam, "H": H, "W": W, "seed": int(r.integers(0, 2 ** 31)), "pts": rand_pts(r, int(r.integers(1, 7)), W, H)}
    if fam == "sizematch":
        mode = str(r.choice(["larger", "smaller", "aspect", "none", "one"]))
        if mode == "larger":
            f = r.uniform(1.0, 2.4)
            c["max_h"], c["max_w"] = int(H * f) + int(r.integers(0, 9)), int(W * f) + int(r.integers(0, 9))
        elif mode == "smaller":
            f = r.uniform(0.3, 1.0)
            c["max_h"], c["max_w"] = max(16, int(H * f)), max(16, int(W * f * r.uniform(0.8, 1.2)))
        elif mode == "aspect":
            c["max_h"], c["max_w"] = int(r.integers(max(16, H // 3), int(H * 2.4))), int(r.integers(max(16, W // 3), int(W * 2.4)))
        elif mode == "one":
            c["max_h"], c["max_w"] = (None, int(W * r.uniform(1.0, 2.0))) if r.random() < 0.5 else (int(H * r.uniform(1.0, 2.0)), None)
        else:
            c["max_h"], c["max_w"] = None, None
    elif fam == "resize":
        c["scale"] = float(r.choice([0.25, 1 / 3, 0.5, 0.75, 1.0, 1.5, 2.0]))
    elif fam == "pad":
        c["max_stride"] = int(r.choice([1, 2, 8, 16, 32, 64]))
    elif fam == "crop":
        ch, cw = int(r.choice([16, 32, 48, 64, 100])), int(r.choice([16, 32, 48, 64, 100]))
        near = r.random() < 0.4
        cx = r.uniform(0, W - 1) if near else r.uniform(cw / 2, max(cw / 2 + 1, W - cw / 2))
        cy = r.uniform(0, H - 1) if near else r.uniform(ch / 2, max(ch / 2 + 1, H - ch / 2))
        if r.random() < 0.5:
            cx, cy = float(round(cx)), float(round(cy))
        c.update(crop_hw=[ch, cw], centroid=[float(cx), float(cy)])
    elif fam == "geo_aug":
        c.update(rotation=float(r.choice([0.0, 15.0, 45.0, 180.0])), scale=[None, [0.9, 1.1], [0.5, 1.5], [1.0, 1.0]][int(r.integers(0, 4))],
                 translate_width=float(r.choice([0.0, 0.05, 0.3])), translate_height=float(r.choice([0.0, 0.05, 0.3])), n_inst=int(r.integers(1, 3)))
    elif fam == "crop_size":
        c.update(padding=int(r.choice([0, 0, 8, 17])), maximum_stride=int(r.choice([1, 2, 8, 16, 32])), input_scaling=float(r.choice([1.0, 0.5, 2.0])),
                 min_crop_size=[None, None, 0, 32, 100, 37][int(r.integers(0, 6))], n_inst=int(r.integers(1, 4)))
    elif fam == "dataset":
        H, W = max(64, min(H, 160)), max(64, min(W, 160))
        c.update(H=H, W=W, pts=None, cls=str(r.choice(["single", "bottomup", "centroid", "centered"])), aug=bool(r.random() < 0.5), scale=float(r.choice([1.0, 0.5, 0.75])),
                 max_stride=int(r.choice([8, 16, 32])), max_hw=[None, [int(H * 1.3), int(W * 1.2)], [max(32, int(H * 0.7)), max(32, int(W * 0.8))]][int(r.integers(0, 3))],
                 crop=int(r.choice([32, 48, 64])), anchor=[None, 0, 1][int(r.integers(0, 3))], n_animals=int(r.integers(1, 4)), rotation=float(r.choice([15.0, 90.0, 180.0])),
                 gray=bool(r.random() < 0.3))
        c.update(np_chunks=bool(r.random() < 0.3), shared_file=bool(r.random() < 0.3))  # storage mode; several videos held in ONE HDF5 file (shared frame indices)
    return c


def cases(ctx):
    for i in range(N[ctx.tier]):
        if i % ctx.nshards == ctx.shard:
            yield gen_case(ctx, i)


def directed(ctx):
    yield {"i": -1, "family": "sizematch", "H": 60, "W": 100, "seed": 1, "pts": np.array([[30.0, 20.0], [80.0, 50.0]]), "max_h": 128, "max_w": 128}
    yield {"i": -2, "family": "crop", "H": 64, "W": 64, "seed": 2, "pts": np.array([[30.0, 20.0], [40.0, 50.0]]), "crop_hw": [32, 48], "centroid": [3.0, 60.0]}


def decode(img_chw):
    """(3,H,W) float array in coded units -> (code_x, code_y, marker)."""
    return img_chw[0], img_chw[1], img_chw[2]


KEY_KORNIA = "affine-augmentation-anisotropic-on-non-square-images"


def reg_check(ctx, small, key, img_chw, kp_out, kp_orig, marker_level=1.0, tol=1.0, what="", aug_rotation=0.0):
    """Fit the output image and compare where each keypoint's content went with the returned keypoint."""
    cx, cy, mk = decode(img_chw)
    fit = geom.fit_affine(cx, cy, mk, marker_level=marker_level)
    if fit is None or fit["rms"] > 0.35:
        ctx.count("fit_inconclusive")
        return None
    ctx.count("fits")
    kp_out, kp_orig = np.asarray(kp_out, float).reshape(-1, 2), np.asarray(kp_orig, float).reshape(-1, 2)
    vis = ~np.isnan(kp_orig).any(-1)
    if (np.isnan(kp_out).any(-1) != ~vis).any():
        ctx.violation(key + "-nan-pattern", f"{what}: NaN pattern of the keypoints changed", small)
        return fit
    if vis.any():
        where = geom.to_output(fit, kp_orig[vis])
        err = np.abs(where - kp_out[vis]).max()
        ctx.count("keypoints_registered", int(vis.sum()))
        if err > tol:
            j = int(np.argmax(np.abs(where - kp_out[vis]).max(-1)))
            Hh, Ww = img_chw.shape[-2:]
            # mechanism of the known finding: kornia rotates the image in coordinates normalised per axis, so on a non-square image the image
            # transform and the keypoint transform differ by up to d * (1/min(H,W) - 1/max(H,W)) at distance d from the image centre (0 on squares)
            d_c = float(np.hypot(where[j][0] - (Ww - 1) / 2.0, where[j][1] - (Hh - 1) / 2.0))
            if aug_rotation and Hh != Ww and err <= 0.35 + 1.05 * d_c * (1.0 / min(Hh, Ww) - 1.0 / max(Hh, Ww)):
                key = KEY_KORNIA
            ctx.violation(key, f"{what}: content of keypoint {kp_orig[vis][j].tolist()} is at {np.round(where[j], 2).tolist()} in the output but the returned keypoint is "
                               f"{np.round(kp_out[vis][j], 2).tolist()} (off by {err:.2f} px)", small)
    return fit


def pad_only_bottom_right(mk, th, tw):
    """Marker (content) must fill [0:th, 0:tw] and padding must be exactly 0 elsewhere."""
    H, W = mk.shape
    ok_pad = (mk[th:, :] == 0).all() and (mk[:, tw:] == 0).all()
    inner = mk[: max(th - 1, 1), : max(tw - 1, 1)]
    return bool(ok_pad and (inner > 0.5).all())


def check(ctx, case):
    import torch

    fam = case["family"]
    H, W = case["H"], case["W"]
    small = dict(case)
    pts = None if case.get("pts") is None else (case["pts"] if isinstance(case["pts"], np.ndarray) else __import__("vf.core", fromlist=["unjson_array"]).unjson_array(case["pts"])).reshape(-1, 2)
    img = torch.from_numpy(geom.ramp_image_float(H, W)).unsqueeze(0)  # (1,3,H,W)
    sig = None
    torch.manual_seed(case["seed"])
    if fam == "sizematch":
        from sleap_nn.data.resizing import apply_sizematcher

        out, eff = apply_sizematcher(img.clone(), case["max_h"], case["max_w"])
        ctx.count("calls:apply_sizematcher")
        mh, mw = case["max_h"] or H, case["max_w"] or W
        o = out[0].numpy()
        if tuple(out.shape[-2:]) != (mh, mw):
            ctx.violation("size", f"apply_sizematcher: output {tuple(out.shape[-2:])} != requested ({mh},{mw})", small)
        else:
            ratio = min(mh / H, mw / W) if (mh, mw) != (H, W) else 1.0
            if abs(eff - ratio) > 1e-9:
                ctx.violation("eff-scale", f"apply_sizematcher: eff_scale {eff} != min ratio {ratio}", small)
            th, tw = (int(round(H * ratio)), int(round(W * ratio))) if (mh, mw) != (H, W) else (H, W)
            if not pad_only_bottom_right(o[2], th, tw):
                ctx.violation("padding-not-bottom-right", f"apply_sizematcher: content is not anchored top-left with zero padding only below/right (content {th}x{tw} in {mh}x{mw})", small)
            reg_check(ctx, small, "registration", o, pts * eff, pts, what="apply_sizematcher (keypoints * eff_scale)", tol=1.0 + (0.5 if eff != 1.0 else 0.0))
            sig = (fam, H, W, mh, mw) if eff != 1.0 else None
    elif fam == "resize":
        from sleap_nn.data.resizing import apply_resizer

        inst = torch.from_numpy(pts.astype(np.float32)).reshape(1, 1, -1, 2)
        out, kp = apply_resizer(img.clone(), inst.clone(), scale=case["scale"])
        ctx.count("calls:apply_resizer")
        s = case["scale"]
        want = (int(H * s), int(W * s)) if s != 1.0 else (H, W)
        if tuple(out.shape[-2:]) != want:
            ctx.violation("size", f"apply_resizer: output {tuple(out.shape[-2:])} != {want}", small)
        else:
            frac = max(H * s - int(H * s), W * s - int(W * s))  # integer truncation of the output size changes the true scale
            reg_check(ctx, small, "registration", out[0].numpy(), kp.numpy().reshape(-1, 2), pts.astype(np.float32), what=f"apply_resizer scale {s}", tol=1.0 + frac)
            sig = (fam, H, W, s) if s != 1.0 else None
    elif fam == "pad":
        from sleap_nn.data.resizing import apply_pad_to_stride

        ms = case["max_stride"]
        out = apply_pad_to_stride(img.clone(), ms)
        ctx.count("calls:apply_pad_to_stride")
        want = (-(-H // ms) * ms, -(-W // ms) * ms)
        if tuple(out.shape[-2:]) != want:
            ctx.violation("size", f"apply_pad_to_stride: output {tuple(out.shape[-2:])} is not the smallest multiple of {ms} covering ({H},{W})", small)
        elif not torch.equal(out[..., :H, :W], img) or out[..., H:, :].abs().sum() != 0 or out[..., :, W:].abs().sum() != 0:
            ctx.violation("padding-not-bottom-right", "apply_pad_to_stride: content moved or padding is not zero at the bottom/right", small)
        sig = (fam, H, W, ms) if want != (H, W) else None
    elif fam == "crop":
        from sleap_nn.data.instance_cropping import generate_crops

        ch, cw = case["crop_hw"]
        cen = torch.tensor(case["centroid"], dtype=torch.float32)
        inst = torch.from_numpy(pts.astype(np.float32))
        res = generate_crops(img.clone(), inst.clone(), cen.clone(), (ch, cw))
        ctx.count("calls:generate_crops")
        ci = res["instance_image"]
        if tuple(ci.shape[-2:]) != (ch, cw):
            ctx.violation("size", f"generate_crops: crop {tuple(ci.shape[-2:])} != crop_hw ({ch},{cw})", small)
        else:
            fit = reg_check(ctx, small, "registration", ci[0].numpy(), res["instance"].numpy().reshape(-1, 2), pts.astype(np.float32), what="generate_crops")
            if fit is not None:
                cc = geom.to_output(fit, np.array([case["centroid"]]))[0]
                if np.abs(cc - res["centroid"].numpy().reshape(2)).max() > 1.0:
                    ctx.violation("registration", f"generate_crops: content of the centroid is at {cc.tolist()} but the returned centred centroid is {res['centroid'].numpy().tolist()}", small)
                # the crop is centred on the centroid (within a pixel)
                if np.abs(res["centroid"].numpy().reshape(2) - np.array([cw / 2, ch / 2])).max() > 1.0:
                    ctx.violation("crop-not-centred", f"generate_crops: centroid lands at {res['centroid'].numpy().tolist()} in a {ch}x{cw} crop", small)
            sig = (fam, H, W, ch, cw, tuple(np.round(case["centroid"], 0)))
    elif fam == "geo_aug":
        from sleap_nn.data.augmentation import apply_geometric_augmentation

        n_inst = case["n_inst"]
        P = np.stack([pts] * n_inst) + np.arange(n_inst)[:, None, None] * 1.5
        inst = torch.from_numpy(P.astype(np.float32)).unsqueeze(0)
        sc = tuple(case["scale"]) if case["scale"] is not None else None
        out, kp = apply_geometric_augmentation(img.clone(), inst.clone(), rotation=case["rotation"], scale=sc, translate_width=case["translate_width"],
                                               translate_height=case["translate_height"], affine_p=1.0)
        ctx.count("calls:apply_geometric_augmentation")
        if tuple(out.shape) != tuple(img.shape) or tuple(kp.shape) != tuple(inst.shape):
            ctx.violation("size", f"apply_geometric_augmentation changed shapes {tuple(out.shape)}, {tuple(kp.shape)}", small)
        else:
            fit = reg_check(ctx, small, "registration", out[0].numpy(), kp.numpy().reshape(-1, 2), P.astype(np.float32).reshape(-1, 2), what="apply_geometric_augmentation", aug_rotation=case["rotation"])
            if fit is not None:
                moved = np.abs(fit["A"] - np.eye(2)).max() > 1e-3 or np.abs(fit["t"]).max() > 1e-2
                sig = (fam, H, W, case["rotation"], repr(case["scale"]), case["translate_width"], case["translate_height"]) if moved else None
    elif fam == "erase_mixup":
        from sleap_nn.data.augmentation import apply_geometric_augmentation

        inst = torch.from_numpy(pts.astype(np.float32)).reshape(1, 1, -1, 2)
        for kw in ({"erase_p": 1.0, "erase_scale_min": 0.01, "erase_scale_max": 0.2}, {"mixup_p": 1.0, "mixup_lambda": (0.01, 0.05)}):
            out, kp = apply_geometric_augmentation(img.clone(), inst.clone(), affine_p=0.0, **kw)
            ctx.count("calls:erase_mixup")
            a, b = kp.numpy(), inst.numpy()
            if tuple(out.shape) != tuple(img.shape) or not np.array_equal(np.isnan(a), np.isnan(b)) or np.nanmax(np.abs(np.nan_to_num(a) - np.nan_to_num(b)), initial=0) > 1e-4:
                ctx.violation("erase-mixup-moves-keypoints", f"{list(kw)[0]}: keypoints moved or shapes changed", small)
        sig = (fam, H, W)
    elif fam == "int_aug":
        from sleap_nn.data.augmentation import apply_intensity_augmentation

        inst = torch.from_numpy(pts.astype(np.float32)).reshape(1, 1, -1, 2)
        im01 = torch.rand(1, 3, H, W)
        out, kp = apply_intensity_augmentation(im01.clone(), inst.clone(), uniform_noise_min=0.0, uniform_noise_max=0.1, uniform_noise_p=1.0, gaussian_noise_mean=0.02,
                                               gaussian_noise_std=0.01, gaussian_noise_p=1.0, contrast_min=0.5, contrast_max=2.0, contrast_p=1.0, brightness=(0.8, 1.2), brightness_p=1.0)
        ctx.count("calls:apply_intensity_augmentation")
        a, b = kp.numpy(), inst.numpy()
        if tuple(kp.shape) != tuple(inst.shape) or not (np.array_equal(np.isnan(a), np.isnan(b)) and np.array_equal(np.nan_to_num(a), np.nan_to_num(b))):
            ctx.violation("intensity-moves-keypoints", "apply_intensity_augmentation changed the keypoints", small)
        if tuple(out.shape) != tuple(im01.shape):
            ctx.violation("size", "apply_intensity_augmentation changed the image shape", small)
        sig = (fam, H, W)
    elif fam == "crop_size":
        sig = check_crop_size(ctx, case, small, pts)
    elif fam == "dataset":
        sig = check_dataset(ctx, case, small)
    ctx.tick(sig, sample={k: v for k, v in small.items() if k != "pts"} if ctx.evaluations < 6 else None)


def check_crop_size(ctx, case, small, pts):
    from sleap_nn.data.instance_cropping import find_instance_crop_size
    from vf import synth

    r = np.random.default_rng(case["seed"])
    v = _blank(ctx)
    sk = synth.skeleton(len(pts))
    poses = []
    for a in range(case["n_inst"]):
        p = pts + r.uniform(-5, 5, pts.shape)
        if a == 0:
            p = np.where(np.isnan(p), 10.0, p)  # at least one fully visible instance
        poses.append(p)
    labels = synth.labels_from_poses([(v, 0, poses)], sk)
    before = [inst.numpy().copy() for inst in labels[0].instances]
    cs = find_instance_crop_size(labels, padding=case["padding"], maximum_stride=case["maximum_stride"], input_scaling=case["input_scaling"], min_crop_size=case["min_crop_size"])
    ctx.count("calls:find_instance_crop_size")
    after = [inst.numpy() for inst in labels[0].instances]
    if any(not np.array_equal(np.nan_to_num(a, nan=-7), np.nan_to_num(b, nan=-7)) for a, b in zip(before, after)):
        ctx.violation("crop-size-mutates-labels", "find_instance_crop_size changed the labels' coordinates", small)
    if cs % case["maximum_stride"] != 0:
        ctx.violation("crop-size-not-multiple", f"crop size {cs} is not a multiple of maximum_stride {case['maximum_stride']}", small)
    ext = max(max(np.nanmax(p[:, k]) - np.nanmin(p[:, k]) for k in (0, 1)) for p in poses) * case["input_scaling"]
    if not case["min_crop_size"] and cs < ext + case["padding"] - 1e-6:
        ctx.violation("crop-size-too-small", f"crop size {cs} does not cover the largest instance extent {ext:.2f} + padding {case['padding']}", small)
    return ("crop_size", case["padding"], case["maximum_stride"], case["input_scaling"], case["min_crop_size"], int(ext))


_CACHE = {}


def _blank(ctx):
    from vf import synth

    if "blank" not in _CACHE:
        _CACHE["blank"] = synth.blank_video("C04", n_frames=2, H=240, W=240, C=1)
    return _CACHE["blank"]


def check_dataset(ctx, case, small):
    import torch
    from omegaconf import OmegaConf
    from sleap_nn.data import custom_datasets as cd
    from vf import synth

    r = np.random.default_rng(case["seed"])
    H, W, n_nodes = case["H"], case["W"], 3
    gray = bool(case.get("gray"))
    modes = ["x", "y"] if gray else ["rgb"]
    vids_by_mode = {}
    for mode in modes:
        key = ("vid", H, W, mode)
        if key not in _CACHE:
            _CACHE[key] = synth.coded_video("C04", f"coded8_{mode}_{H}x{W}.h5", 2, H, W, mode=mode, code_step=8)  # frame codes 8 apart: 8-bit re-quantisation (+-1) cannot confuse frames
        vids_by_mode[mode] = _CACHE[key]
    v = vids_by_mode[modes[0]]
    sk = synth.skeleton(n_nodes)
    cls = case["cls"]
    n_an = 1 if cls == "single" else case["n_animals"]
    shared = bool(case.get("shared_file")) and not gray
    slots = [(v, f, 8 * f) for f in range(2)]  # (video, frame index, content code)
    if shared:  # two videos stored as two datasets of one HDF5 file; labelled frames of the two videos are adjacent and share their frame index
        import h5py
        import sleap_io as sio

        key = ("shared8", H, W)
        if key not in _CACHE:
            path = os.path.join(synth.workdir("C04"), f"shared8_{H}x{W}.h5")
            with h5py.File(path, "w") as fh:
                for k in range(2):
                    fh.create_dataset(f"video{k}", data=np.stack([geom.ramp_frame_uint8(H, W, 8 * (2 * k + f)) for f in range(2)]))
            _CACHE[key] = [sio.load_video(path, dataset=f"video{k}") for k in range(2)]
        sv = _CACHE[key]
        slots = [(sv[k], f, 8 * (2 * k + f)) for f in range(2) for k in range(2)]
        ctx.count("shared_file_datasets")
    frames = []
    for (vid_, f, _code) in slots:
        poses = []
        for a in range(n_an):
            c = np.array([r.uniform(25, W - 25), r.uniform(25, H - 25)])
            p = c + r.uniform(-14, 14, (n_nodes, 2))
            p = np.clip(p, 6, [W - 7, H - 7])
            if r.random() < 0.3:
                p[int(r.integers(0, n_nodes))] = np.nan
            poses.append(p)
        frames.append((vid_, f, poses))
    labels = synth.labels_from_poses(frames, sk)
    # sio.Labels may regroup the labelled frames (by video): index everything by the order the Labels object actually holds
    pos = {(id(fr_[0]), fr_[1]): j for j, fr_ in enumerate(frames)}
    perm = [pos[(id(lf.video), lf.frame_idx)] for lf in labels]
    frames, slots = [frames[j] for j in perm], [slots[j] for j in perm]
    aug = case["aug"]
    geo = {"rotation": case["rotation"], "scale": (0.9, 1.1), "translate_width": 0.1, "translate_height": 0.1, "affine_p": 1.0}
    data_cfg = OmegaConf.create({"user_instances_only": True, "preprocessing": {"is_rgb": not gray}, "augmentation_config": {"geometric": geo}})
    head = OmegaConf.create({"sigma": 1.5, "output_stride": 2, "anchor_part": case["anchor"], "part_names": None})
    max_hw = tuple(case["max_hw"]) if case["max_hw"] else (None, None)
    chunk_dirs = []
    if case.get("np_chunks"):
        ctx.count("np_chunk_datasets")

    def make_ds(lbls):
        common = dict(labels=lbls, data_config=data_cfg, max_stride=case["max_stride"], scale=case["scale"], apply_aug=aug, max_hw=max_hw)
        if case.get("np_chunks"):
            import tempfile

            chunk_dirs.append(tempfile.mkdtemp(prefix="chunks-", dir=synth.workdir("C04")))
            common.update(np_chunks=True, np_chunks_path=chunk_dirs[-1])
        torch.manual_seed(case["seed"])
        if cls == "single":
            return cd.SingleInstanceDataset(confmap_head_config=head, **common)
        if cls == "bottomup":
            return cd.BottomUpDataset(confmap_head_config=head, pafs_head_config=OmegaConf.create({"sigma": 4.0, "output_stride": 4}), **common)
        if cls == "centroid":
            return cd.CentroidDataset(confmap_head_config=head, **common)
        return cd.CenteredInstanceDataset(crop_hw=(case["crop"], case["crop"]), confmap_head_config=head, **common)

    ds = make_ds(labels)
    ds_y = None
    if gray:  # grayscale pipelines are decoded from two runs (x-coded video, y-coded video) under the same torch seeds
        labels_y = synth.labels_from_poses([(vids_by_mode["y"], f_, p_) for (_, f_, p_) in frames], sk)
        ds_y = make_ds(labels_y)
        ctx.count("grayscale_datasets")
    ctx.count("datasets:" + cls)
    ms = case["max_stride"]
    for n_read, idx in enumerate([i for _epoch in range(2) for i in range(len(ds))]):  # two epochs: registration must also hold on a re-read
        torch.manual_seed(case["seed"] + 17 * n_read)
        s = ds[idx]
        if gray:
            torch.manual_seed(case["seed"] + 17 * n_read)
            s2 = ds_y[idx]
        ctx.count("dataset_samples")
        if cls == "centered":
            img, kp = s["instance_image"], s["instance"].numpy().reshape(-1, 2)
            lf_idx, inst_idx = ds.instance_idx_list[idx]
            orig = frames[lf_idx][2][inst_idx]
            want_hw = (-(-case["crop"] // ms) * ms,) * 2
        else:
            img = s["image"]
            lf_idx = ds.lf_idx_list[idx]
            P = np.stack(frames[lf_idx][2])
            if cls == "centroid":
                kp = s["centroids"].numpy().reshape(-1, 2)[: len(P)]
                # centroid = anchor node or bbox midpoint
                orig = []
                for p in P:
                    a = case["anchor"]
                    if a is not None and not np.isnan(p[a]).any():
                        orig.append(p[a])
                    else:
                        orig.append((np.nanmax(p, 0) + np.nanmin(p, 0)) / 2)
                orig = np.array(orig)
            else:
                kp = s["instances"].numpy().reshape(-1, n_nodes, 2)[: len(P)].reshape(-1, 2)
                orig = P.reshape(-1, 2)
            want_hw = None
        o = img[0].numpy() * 255.0
        marker_level = 128 + int(slots[lf_idx][2])
        if gray:
            img2 = s2["instance_image" if cls == "centered" else "image"]
            kkey = "instance" if cls == "centered" else ("centroids" if cls == "centroid" else "instances")
            if img.shape != img2.shape or img.shape[-3] != 1 or not np.array_equal(np.nan_to_num(s[kkey].numpy(), nan=-1), np.nan_to_num(s2[kkey].numpy(), nan=-1)):
                ctx.violation("grayscale-runs-differ", f"{cls} dataset: the x-coded and y-coded runs (same labels, same seeds) give different keypoints or shapes", small)
                continue
            cx, cy = img[0, 0].numpy() * 255.0 / 0.2989, img2[0, 0].numpy() * 255.0 / 0.2989
            o = np.stack([cx, cy, ((cx >= geom.OFFSET - 0.5) & (cy >= geom.OFFSET - 0.5)).astype(np.float64)])
            marker_level = 1.0
        if not gray:  # the blue channel carries the identity of the frame the pixels came from
            lv = o[2][o[2] > 100]
            other = {128 + c_ for (_v, _f, c_) in slots} - {marker_level}
            if lv.size >= 12 and min(abs(float(np.median(lv)) - o_) for o_ in other) <= 2.0:  # the code of *another* labelled frame of this label set
                ctx.violation("image-of-another-frame", f"{cls} dataset sample {idx}: the pixels carry frame code {float(np.median(lv)) - 128:.0f} but the sample belongs to the labelled frame with code {marker_level - 128} "
                                                        f"(video {'shared file' if shared else 'single'}, frame_idx {slots[lf_idx][1]})", small)
                continue
        if cls == "centered" and not aug:
            cc = s["centroid"].numpy().reshape(2)
            ctx.count("centred_crop_checks")
            if np.abs(cc - np.array([case["crop"] / 2, case["crop"] / 2])).max() > 1.0:
                ctx.violation("crop-not-centred", f"centered-instance dataset: the centroid lands at {cc.tolist()} in a {case['crop']} px crop (not re-cropped about the centroid)", small)
            p_ = frames[lf_idx][2][inst_idx]
            a_ = case["anchor"]
            true_c = p_[a_] if (a_ is not None and not np.isnan(p_[a_]).any()) else (np.nanmax(p_, 0) + np.nanmin(p_, 0)) / 2
            kp = np.concatenate([kp, cc[None]], 0)
            orig = np.concatenate([np.asarray(orig), true_c[None]], 0)
        if img.shape[-2] % ms or img.shape[-1] % ms:
            ctx.violation("size", f"{cls} dataset: image {tuple(img.shape[-2:])} is not a multiple of max_stride {ms}", small)
        if want_hw and tuple(img.shape[-2:]) != want_hw:
            ctx.violation("size", f"centered-instance dataset: crop {tuple(img.shape[-2:])} != crop size (padded to stride) {want_hw}", small)
        tol = 1.0 + (0.5 if case["max_hw"] else 0.0) + (1.0 if case["scale"] != 1.0 else 0.0)  # integer rounding of the resized sizes
        if case.get("np_chunks"):
            tol += 1.0  # chunk files hold 8-bit images written by truncation: the coordinate code of a pixel can be one level (= one pixel) low, on all pixels of an axis in the worst case
        reg_check(ctx, small, "registration", o, kp, np.asarray(orig, np.float32), marker_level=marker_level, tol=tol, aug_rotation=case["rotation"] if aug else 0.0,
                  what=f"{cls} dataset (aug={aug}, scale={case['scale']}, max_hw={case['max_hw']})")
    for d_ in chunk_dirs:
        shutil.rmtree(d_, ignore_errors=True)
    return ("dataset", cls, aug, case["scale"], ms, repr(case["max_hw"]), case["anchor"], H, W, bool(case.get("np_chunks")), shared)


def finalize(ctx):
    for k in ("calls:apply_sizematcher", "calls:apply_resizer", "calls:apply_pad_to_stride", "calls:generate_crops", "calls:apply_geometric_augmentation",
              "calls:apply_intensity_augmentation", "calls:find_instance_crop_size", "dataset_samples"):
        ctx.require(k, 3)
    ctx.require("keypoints_registered", 50)
    if ctx.counters.get("fit_inconclusive", 0) > 0.3 * max(1, ctx.counters.get("fits", 0)):
        ctx.note_inconclusive("more than 30% of the registration fits were unusable")


LEVEL_TEXT = ("The real geometric functions and the four Dataset classes run on coordinate-coded ramp images; an affine map is fitted from the output pixels alone and the "
              "returned keypoints are compared with where their image content actually went (1 output pixel), plus exact size / padding-side / bit-identity checks. Exploration.")
LEVEL_NOTE = "Trusted: the ramp coding and least-squares fit (vf/geom.py); fits with too few intact pixels or a poor residual make the case inconclusive, never held."
TECHNIQUE = "runtime monitoring: self-locating coordinate-coded images + affine-fit registration oracle"
