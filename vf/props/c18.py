"""C18 — interchangeable data-pipeline implementations produce the same samples.

For the same labels and configuration: in-memory Dataset vs npz-chunk Dataset vs chunk function
+ *StreamingDataset.__getitem__ (litdata's storage layer stubbed: the chunk dict is fed straight
through the class's own __getitem__); plus DataPipe blocks vs their functional counterparts."""
import os
import shutil

import numpy as np

LEVEL = "exploration"
RULE = ("seeded label sets (noise images, 1-3 frames, 1-3 animals, NaN nodes, two videos of different size) x model type {single, centroid, bottom-up at scale {1,0.5,0.75}; centred "
        "instance at scale 1} x max_stride {8,16,32} x output strides x sigma x is_rgb x anchor x (max_height,max_width) {None, explicit}; frameworks {torch_dataset, "
        "torch_dataset_np_chunks, chunk function + streaming __getitem__}; DataPipe block vs function pairs over random examples. non-trivial = sample with >= 2 animals or scale != 1; "
        "distinct by (model type, scale, strides, rgb, anchor, sizes)")
ASSUMPTIONS = ["only the documented-equal domain is compared: all model types at scale 1; single-instance, centroid and bottom-up at any scale",
               "litdata's serialisation layer is replaced by passing the chunk dict to the streaming class's own __getitem__ (PIL images and tensors as litdata returns them)",
               "tolerances: images 1/255 + 1e-6 (8-bit truncation), targets and keypoints 1e-4 after squeezing singleton axes"]
SHARDS = {"quick": 8, "thorough": 16}
N = {"quick": 330, "thorough": 32000}
BUDGET = {"quick": 110, "thorough": 600}
TIMEOUT = {"quick": 800, "thorough": 3000}
SELF_SHARDED = True
_S = {}
IN_SCOPE = {"single": {"image", "instances", "confidence_maps"}, "centroid": {"image", "centroids", "centroids_confidence_maps"},
            "bottomup": {"image", "instances", "confidence_maps", "part_affinity_fields"}, "centered": {"instance_image", "instance", "centroid", "confidence_maps"}}


def setup(ctx):
    import sleap_io as sio
    from vf import synth

    rng = np.random.default_rng(18)
    vids = {}
    for name, (H, W, C) in {"g1": (72, 96, 1), "g2": (64, 80, 1), "c1": (72, 96, 3), "c2": (64, 80, 3)}.items():
        p = synth.write_h5_video(os.path.join(synth.workdir("C18"), f"{name}.h5"), rng.integers(0, 256, (3, H, W, C), dtype=np.uint8))
        vids[name] = sio.load_video(p)
    _S["vids"] = vids


def gen_case(ctx, i):
    r = ctx.rng(18, i)
    fam = "pipeline" if i % 5 else "datapipe"
    if fam == "datapipe":
        return {"i": i, "family": fam, "seed": int(r.integers(0, 2 ** 31)), "block": ["normalizer", "resizer", "pad", "centroid", "cropper"][int(r.integers(0, 5))]}
    model = ["single", "centroid", "bottomup", "centered"][int(r.integers(0, 4))]
    scale = 1.0 if model == "centered" else float(r.choice([1.0, 0.5, 0.75]))
    color = bool(r.random() < 0.4)
    two = bool(r.random() < 0.4) and model != "single"
    n_nodes = int(r.integers(2, 5))
    frames = []
    used = set()
    for _k in range(int(r.integers(1, 5)) if i % 6 else 6):  # every sixth label set is large: centred-instance sets reach 11-18 samples (chunk files sample_10..)
        v = int(r.integers(0, 2)) if two else 0
        f = int(r.integers(0, 3))  # frame indices may coincide across videos (consecutive labelled frames sharing an index)
        if (v, f) in used:
            continue
        used.add((v, f))
        n_an = 1 if model == "single" else int(r.integers(1, 4))
        animals = []
        for a in range(n_an):
            c = np.array([r.uniform(16, 60), r.uniform(16, 46)])
            p = np.round((c + r.uniform(-12, 12, (n_nodes, 2))) * 4) / 4
            m = r.random(n_nodes) < 0.25
            if m.all():
                m[0] = False
            p[m] = np.nan
            animals.append(p)
        flags = [False] * len(animals)
        if model != "single" and r.random() < 0.3:  # a predicted instance listed among the user instances (ignored under user_instances_only)
            pos_ = int(r.integers(0, len(animals) + 1))
            animals.insert(pos_, np.round(r.uniform(14, 50, (n_nodes, 2)) * 4) / 4)
            flags.insert(pos_, True)
        frames.append({"video": v, "frame_idx": f, "animals": animals, "pred": flags})
    explicit = bool(r.random() < 0.4) or two
    return {"i": i, "family": fam, "model": model, "scale": scale, "is_rgb": bool(r.random() < 0.5), "color_video": color, "n_nodes": n_nodes, "frames": frames,
            "max_stride": int(r.choice([8, 16, 32])), "stride": int(r.choice([1, 2, 4])), "paf_stride": int(r.choice([2, 4, 8])), "sigma": float(r.choice([1.0, 1.5, 2.5])),
            "anchor": [None, 0, 1][int(r.integers(0, 3))], "explicit_max": [int(r.choice([72, 96, 128])), int(r.choice([96, 128]))] if explicit else None, "crop": int(r.choice([32, 40, 48])),
            "seed": int(r.integers(0, 2 ** 31)), "litdata": bool(ctx.tier == "thorough" and i % 400 == 7)}


def cases(ctx):
    for i in range(N[ctx.tier]):
        if i % ctx.nshards == ctx.shard:
            yield gen_case(ctx, i)


def arr(x, n):
    from vf.core import unjson_array

    return (x if isinstance(x, np.ndarray) else unjson_array(x)).reshape(n, 2)


def to_np(v):
    import torch

    if isinstance(v, torch.Tensor):
        return v.detach().numpy()
    return np.asarray(v)


def sq(a):
    a = np.asarray(a)
    return a.reshape([d for d in a.shape if d != 1]) if a.ndim else a


def compare(ctx, small, name_a, name_b, A, B, idx, image_keys):
    """Compare two sample dicts on the keys both have."""
    for k in sorted(set(A) & set(B)):
        if k not in IN_SCOPE[small["model"]]:
            continue  # only network inputs, training targets and the keypoints/centroids the targets are drawn from
        a, b = A[k], B[k]
        if not hasattr(a, "shape") and not isinstance(a, (int, float, np.integer)):
            continue
        a, b = sq(to_np(a)).astype(np.float64), sq(to_np(b)).astype(np.float64)
        ctx.count("key_comparisons")
        if a.shape != b.shape:
            ctx.violation("sample-shape", f"{name_a} vs {name_b}: key '{k}' of sample {idx} has shapes {a.shape} vs {b.shape}", small)
            continue
        tol = 1 / 255 + 1e-6 if k in image_keys else 1e-4
        if not np.array_equal(np.isnan(a), np.isnan(b)):
            ctx.violation("sample-nan-pattern", f"{name_a} vs {name_b}: key '{k}' of sample {idx} has different NaN patterns", small)
            continue
        d = np.nanmax(np.abs(a - b), initial=0) if a.size else 0.0
        if d > tol:
            kind = "image" if k in image_keys else ("target" if "confidence" in k or "affinity" in k else "keypoints")
            ctx.violation(f"frameworks-disagree-{kind}", f"{name_a} vs {name_b}: key '{k}' of sample {idx} differs by {d:.4g} (tolerance {tol:.4g})", small)


def check_pipeline(ctx, case):
    import torch
    from omegaconf import OmegaConf
    from sleap_nn.data import custom_datasets as cd, get_data_chunks as gc, streaming_datasets as sd
    from sleap_nn.data.providers import get_max_height_width, get_max_instances
    from vf import synth
    import litdata as ld
    import tempfile

    n, model = case["n_nodes"], case["model"]
    small = case
    vn = ("c" if case["color_video"] else "g")
    vids = [_S["vids"][vn + "1"], _S["vids"][vn + "2"]]
    edges = [(k, k + 1) for k in range(n - 1)]
    sk = synth.skeleton(n, edges=edges)
    def fresh_labels():  # every framework gets its own Labels object (some code paths filter lf.instances in place)
        return synth.labels_from_poses([(vids[fr["video"]], fr["frame_idx"], [arr(a, n) for a in fr["animals"]], list(fr.get("pred") or [False] * len(fr["animals"]))) for fr in case["frames"]], sk)

    labels = fresh_labels()
    data_cfg = OmegaConf.create({"user_instances_only": True, "preprocessing": {"is_rgb": case["is_rgb"], "max_height": case["explicit_max"][0] if case["explicit_max"] else None,
                                                                                 "max_width": case["explicit_max"][1] if case["explicit_max"] else None, "scale": case["scale"]},
                                 "augmentation_config": None})
    head = OmegaConf.create({"sigma": case["sigma"], "output_stride": case["stride"], "anchor_part": case["anchor"], "part_names": None})
    paf_head = OmegaConf.create({"sigma": 4.0, "output_stride": case["paf_stride"]})
    if case["explicit_max"]:
        max_hw = tuple(case["explicit_max"])
    else:
        max_hw = get_max_height_width(labels)
    chunks = tempfile.mkdtemp(prefix="npz-", dir=synth.workdir("C18"))
    common = dict(labels=labels, data_config=data_cfg, max_stride=case["max_stride"], scale=case["scale"], apply_aug=False, max_hw=max_hw)
    image_key = "instance_image" if model == "centered" else "image"
    try:
        def build(np_chunks, reuse=False):
            kw = dict(common, labels=fresh_labels(), np_chunks=np_chunks, np_chunks_path=chunks if np_chunks else None)
            if reuse:
                kw["use_existing_chunks"] = True
            if model == "single":
                return cd.SingleInstanceDataset(confmap_head_config=head, **kw)
            if model == "centroid":
                return cd.CentroidDataset(confmap_head_config=head, **kw)
            if model == "bottomup":
                return cd.BottomUpDataset(confmap_head_config=head, pafs_head_config=paf_head, **kw)
            return cd.CenteredInstanceDataset(crop_hw=(case["crop"], case["crop"]), confmap_head_config=head, **kw)

        mem = build(False)
        npz = build(True)
        ctx.count("datasets_built", 2)
        labels = fresh_labels()  # for the chunk functions
        # chunk functions + streaming __getitem__
        max_inst = get_max_instances(labels)
        chunk_dicts = []
        resolved_max_hw = max_hw
        max_hw = get_max_height_width(labels)  # as documented: the chunk functions prefer the config's max_height/max_width and fall back to the labels' maximum
        for lf in labels:
            x = (lf, labels.videos.index(lf.video))
            if model == "single":
                chunk_dicts.append(gc.single_instance_data_chunks(x, data_config=data_cfg, max_hw=max_hw, user_instances_only=True, scale=case["scale"]))
            elif model == "centroid":
                chunk_dicts.append(gc.centroid_data_chunks(x, data_config=data_cfg, max_instances=max_inst, anchor_ind=case["anchor"], max_hw=max_hw, user_instances_only=True, scale=case["scale"]))
            elif model == "bottomup":
                chunk_dicts.append(gc.bottomup_data_chunks(x, data_config=data_cfg, max_instances=max_inst, max_hw=max_hw, user_instances_only=True, scale=case["scale"]))
            else:
                chunk_dicts.extend(list(gc.centered_instance_data_chunks(x, data_config=data_cfg, max_instances=max_inst, crop_size=(case["crop"], case["crop"]), anchor_ind=case["anchor"],
                                                                         max_hw=max_hw, user_instances_only=True, scale=case["scale"])))
        ctx.count("chunk_dicts", len(chunk_dicts))
        cls = {"single": sd.SingleInstanceStreamingDataset, "centroid": sd.CentroidStreamingDataset, "bottomup": sd.BottomUpStreamingDataset, "centered": sd.CenteredInstanceStreamingDataset}[model]
        stream = object.__new__(cls)
        stream.confmap_head, stream.max_stride, stream.apply_aug, stream.aug_config = head, case["max_stride"], False, None
        if model == "bottomup":
            stream.pafs_head, stream.edge_inds = paf_head, labels.skeletons[0].edge_inds
        if model == "centered":
            stream.input_scale = case["scale"]
            stream.crop_hw = [int(case["crop"] * case["scale"])] * 2
        orig_get = ld.StreamingDataset.__getitem__
        ld.StreamingDataset.__getitem__ = lambda self, index: dict(chunk_dicts[index])
        try:
            if len(mem) != len(npz) or len(mem) != len(chunk_dicts):
                ctx.violation("sample-count", f"{model}: in-memory {len(mem)}, npz {len(npz)}, chunk functions {len(chunk_dicts)} samples", small)
            for epoch in (0, 1):  # every index is read twice: the frameworks must agree on every epoch, not just on first reads
                tag = "torch_dataset" if epoch == 0 else "torch_dataset (second epoch)"
                for idx in range(min(len(mem), len(npz), len(chunk_dicts))):
                    a, b = mem[idx], npz[idx]
                    c = stream[idx]
                    ctx.count("samples_compared")
                    compare(ctx, small, tag, "torch_dataset_np_chunks", a, b, idx, {image_key})
                    compare(ctx, small, tag, "chunks+streaming", a, c, idx, {image_key})
            # a dataset re-opened over the chunk folder the npz dataset wrote (use_existing_chunks) is the same framework read again
            npz_re = build(True, reuse=True)
            ctx.count("reopened_npz_datasets")
            if len(npz_re) != len(npz):
                ctx.violation("sample-count", f"{model}: re-opened npz dataset has {len(npz_re)} samples, the original {len(npz)}", small)
            for idx in range(min(len(mem), len(npz_re))):
                compare(ctx, small, "torch_dataset", "torch_dataset_np_chunks (re-opened, use_existing_chunks)", mem[idx], npz_re[idx], idx, {image_key})
        finally:
            ld.StreamingDataset.__getitem__ = orig_get
        if case.get("litdata"):
            real_litdata_round_trip(ctx, case, small, labels, data_cfg, head, paf_head, max_hw, max_inst, mem, image_key)
    finally:
        shutil.rmtree(chunks, ignore_errors=True)
    multi = any(len(fr["animals"]) >= 2 for fr in case["frames"])
    return (model, case["scale"], case["stride"], case["paf_stride"], case["is_rgb"], case["color_video"], case["anchor"], repr(case["explicit_max"]), case["max_stride"]) if (multi or case["scale"] != 1.0) else None


def real_litdata_round_trip(ctx, case, small, labels, data_cfg, head, paf_head, max_hw, max_inst, mem, image_key):
    """Thorough tier: the real litdata storage layer (ld.optimize with the real chunk function, then the real
    *StreamingDataset reading the .bin files) against the in-memory dataset."""
    import functools
    import tempfile
    import litdata as ld
    from sleap_nn.data import get_data_chunks as gc, streaming_datasets as sd
    from vf import synth

    model = case["model"]
    out = tempfile.mkdtemp(prefix="ld-", dir=synth.workdir("C18"))
    try:
        common = dict(data_config=data_cfg, max_hw=max_hw, user_instances_only=True, scale=case["scale"])
        if model == "single":
            fn, cls, kw = functools.partial(gc.single_instance_data_chunks, **common), sd.SingleInstanceStreamingDataset, {}
        elif model == "centroid":
            fn, cls, kw = functools.partial(gc.centroid_data_chunks, max_instances=max_inst, anchor_ind=case["anchor"], **common), sd.CentroidStreamingDataset, {}
        elif model == "bottomup":
            fn, cls = functools.partial(gc.bottomup_data_chunks, max_instances=max_inst, **common), sd.BottomUpStreamingDataset
            kw = {"pafs_head": paf_head, "edge_inds": labels.skeletons[0].edge_inds}
        else:
            fn, cls = functools.partial(gc.centered_instance_data_chunks, max_instances=max_inst, crop_size=(case["crop"], case["crop"]), anchor_ind=case["anchor"], **common), sd.CenteredInstanceStreamingDataset
            kw = {"crop_hw": (case["crop"], case["crop"]), "input_scale": case["scale"]}
        try:
            ld.optimize(fn=fn, inputs=[(lf, labels.videos.index(lf.video)) for lf in labels], output_dir=out, num_workers=1, chunk_size=100)
            ds = cls(input_dir=out, shuffle=False, confmap_head=head, max_stride=case["max_stride"], apply_aug=False, augmentation_config=None, **kw)
        except Exception as e:
            ctx.count("litdata_round_trips_inconclusive")
            return
        ctx.count("litdata_round_trips")
        if len(ds) != len(mem):
            ctx.violation("sample-count", f"{model}: litdata holds {len(ds)} samples, in-memory dataset {len(mem)}", small)
        for idx in range(min(len(ds), len(mem))):
            ctx.count("litdata_samples_compared")
            compare(ctx, small, "torch_dataset", "litdata (ld.optimize + StreamingDataset)", mem[idx], ds[idx], idx, {image_key})
    finally:
        shutil.rmtree(out, ignore_errors=True)


def check_datapipe(ctx, case):
    import torch
    from sleap_nn.data import instance_centroids as icn, instance_cropping as icr, normalization as nm, resizing as rs

    r = np.random.default_rng(case["seed"])
    H, W = int(r.integers(24, 70)), int(r.integers(24, 70))
    n_inst, n_nodes = int(r.integers(1, 4)), int(r.integers(2, 5))
    inst = r.uniform(4, min(H, W) - 4, (1, n_inst, n_nodes, 2)).astype(np.float32)
    inst[0][r.random((n_inst, n_nodes)) < 0.2] = np.nan
    block = case["block"]
    small = case
    ctx.count("datapipe_pairs")

    def same(a, b, what):
        a, b = to_np(a).astype(np.float64), to_np(b).astype(np.float64)
        if a.shape != b.shape or not np.array_equal(np.isnan(a), np.isnan(b)) or np.nanmax(np.abs(a - b), initial=0) > 1e-5:
            ctx.violation("datapipe-differs-from-function", f"{block}: {what} differs between the DataPipe block and its functional counterpart", small)

    if block == "normalizer":
        C = int(r.choice([1, 3]))
        img = torch.from_numpy(r.integers(0, 256, (1, C, H, W), dtype=np.uint8))
        is_rgb = bool(r.integers(0, 2))
        out = list(nm.Normalizer([{"image": img.clone()}], is_rgb=is_rgb))[0]["image"]
        f = nm.apply_normalization(img.clone())
        f = nm.convert_to_rgb(f) if is_rgb else nm.convert_to_grayscale(f)
        same(out, f, "image")
    elif block == "resizer":
        img = torch.rand(1, 1, H, W)
        s = float(r.choice([0.5, 0.75, 1.0, 1.5]))
        out = list(rs.Resizer([{"image": img.clone(), "instances": torch.from_numpy(inst.copy())}], scale=s))[0]
        fi, fk = rs.apply_resizer(img.clone(), torch.from_numpy(inst.copy()), scale=s)
        same(out["image"], fi, "image")
        same(out["instances"], fk, "instances")
    elif block == "pad":
        img = torch.rand(1, 1, H, W)
        ms = int(r.choice([1, 2, 8, 16, 32]))
        out = list(rs.PadToStride([{"image": img.clone()}], max_stride=ms))[0]["image"]
        same(out, rs.apply_pad_to_stride(img.clone(), ms), "image")
    elif block == "centroid":
        a = [None] + list(range(n_nodes))
        anchor = a[int(r.integers(0, len(a)))]
        out = list(icn.InstanceCentroidFinder([{"instances": torch.from_numpy(inst.copy())}], anchor_ind=anchor))[0]["centroids"]
        same(out, icn.generate_centroids(torch.from_numpy(inst.copy()), anchor_ind=anchor), "centroids")
    else:
        img = torch.rand(1, 1, H, W)
        ch, cw = int(r.choice([8, 16, 24])), int(r.choice([8, 16, 24]))
        t = torch.from_numpy(np.nan_to_num(inst, nan=5.0))
        cents = icn.generate_centroids(t.clone())
        outs = list(icr.InstanceCropper([{"image": img.clone(), "instances": t.clone(), "centroids": cents.clone(), "num_instances": n_inst}], crop_hw=(ch, cw)))
        # the block reuses one dict: compare the last yielded state with the function on the last instance
        f = icr.generate_crops(img.clone(), t[0, n_inst - 1], cents[0, n_inst - 1], (ch, cw))
        for k in ("instance_image", "instance", "centroid", "instance_bbox"):
            same(outs[-1][k], f[k], k)
    return ("datapipe", block, H, W)


def check(ctx, case):
    sig = check_datapipe(ctx, case) if case["family"] == "datapipe" else check_pipeline(ctx, case)
    ctx.tick(sig, sample={k: v for k, v in case.items() if k != "frames"} if ctx.evaluations < 4 else None)


def finalize(ctx):
    ctx.require("samples_compared", 30)
    ctx.require("key_comparisons", 200)
    ctx.require("datapipe_pairs", 10)


LEVEL_TEXT = ("For each seeded label set and configuration the same samples are produced by the real in-memory Dataset, the real npz-chunk Dataset and the real chunk function + "
              "StreamingDataset.__getitem__, and compared key by key (network inputs within 8-bit truncation, targets and keypoints within 1e-4); DataPipe blocks are compared with "
              "their functional counterparts on random examples. Exploration over the documented-equal domain.")
LEVEL_NOTE = "Trusted: in the quick tier the litdata storage layer is bypassed (chunk dicts go straight to the streaming class's __getitem__); the thorough tier adds real ld.optimize + StreamingDataset round trips for a subset."
TECHNIQUE = "runtime monitoring: differential comparison of interchangeable implementations on the same inputs"
