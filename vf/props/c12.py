"""C12 — a frame's predictions are independent of batch-mates and carry its indices.

The same coordinate-coded frames go through the real predictors one per batch (reference) and in
batches of different size, composition and order (permuted labels files, two videos of different
size, empty frames mixed in); records are grouped by the indices they *claim* and compared with
the solo run and with the scene (so a record carrying the wrong index is caught)."""
import itertools

import numpy as np

from vf import e2e, oracle_net as on

LEVEL = "exploration"
RULE = ("seeded scenes: 3-8 frames from two videos of different size, 0-4 animals per frame (empty frames included) x model {single-instance, top-down, bottom-up} x batch sizes 1-5 x "
        "all permutations of the frame order for <= 4 frames (sampled beyond) x max_instances {None,1,2,3} (top-down) x refinement {None, integral}; reference = one frame per batch. "
        "non-trivial = batch mixing >= 2 different frames of which one is empty or over the max_instances cap; distinct by (model, frame composition, order, batch size, cap)")
ASSUMPTIONS = ["oracle networks give each animal's centroid a distinct known amplitude so 'highest-scoring' is decidable", "RGB pipeline; size matching on (two video sizes in one batch)",
               "the labelled-frame assembly (make_labels=True: bbox re-addition, bottom-up max_instances) runs under a harness-side shim translating the legacy sleap-io keywords; "
               "if that path cannot run the sub-check is counted inconclusive, never held"]
SHARDS = {"quick": 8, "thorough": 16}
N = {"quick": 72, "thorough": 6400}
BUDGET = {"quick": 110, "thorough": 600}
TIMEOUT = {"quick": 800, "thorough": 3400}
SELF_SHARDED = True


def gen_case(ctx, i):
    r = ctx.rng(12, i)
    model = ["single", "topdown", "bottomup"][i % 3]
    sizes = [(int(r.integers(150, 230)), int(r.integers(160, 234))), (int(r.integers(140, 200)), int(r.integers(150, 234)))]
    F = int(r.integers(3, 9)) if ctx.tier == "thorough" else int(r.integers(3, 6))
    big = (i % 12 == 8)  # a bottom-up batch with more frames than any side of the PAF grid and more than 512 peaks
    many = big and (i // 12) % 2 == 1
    if big and not many:
        sizes = [(96, 112), (96, 112)]  # PAF grid 24x28 at stride 4: a batch of 34-44 frames exceeds both sides; limbs up to 37 px > edge-length limit 28 px
        F = int(r.integers(34, 45))
    if many:
        sizes = [(192, 208), (192, 208)]  # ~5-6 animals x 3 nodes x 48-52 frames: more than 512 local peaks refined in one call
        F = int(r.integers(48, 53))
    frames = []
    for k in range(F):
        v = int(r.integers(0, 2))
        n_an = 1 if model == "single" else int(r.choice([0, 1, 2, 3, 4], p=[0.2, 0.2, 0.25, 0.2, 0.15]))
        if model == "single" and r.random() < 0.2:
            n_an = 0
        if big:
            n_an = 6 if many else int(r.choice([0, 1, 1]))
        frames.append({"video": v, "n_animals": n_an})
    mi = [None, None, 1, 2, 3][int(r.integers(0, 5))] if model == "topdown" else None
    ties = bool(mi is not None and not big and r.random() < 0.4)  # equally confident animals across the max_instances cut
    if ties:
        sizes = [sizes[0], sizes[0]]  # no rescaling: centroids can sit exactly on grid cells
    return {"i": i, "model": model, "sizes": sizes, "frames": frames, "refinement": "integral" if many else [None, "integral"][int(r.integers(0, 2))], "seed": int(r.integers(0, 2 ** 31)),
            "max_instances": mi, "ties": ties, "stride": 4 if big else int(r.choice([2, 4])), "n_nodes": 3, "big": big}


def directed(ctx):
    yield {"i": -1, "model": "topdown", "sizes": [(200, 220), (160, 230)], "frames": [{"video": 0, "n_animals": 2}, {"video": 1, "n_animals": 0}, {"video": 0, "n_animals": 3}, {"video": 1, "n_animals": 1}],
           "refinement": None, "seed": 3, "max_instances": 2, "stride": 2, "n_nodes": 3}


def cases(ctx):
    for i in range(N[ctx.tier]):
        if i % ctx.nshards == ctx.shard:
            yield gen_case(ctx, i)


def build(case, name):
    r = np.random.default_rng(case["seed"])
    counts = [0, 0]
    poses, keys = {}, []
    for fr in case["frames"]:
        v = fr["video"]
        f = counts[v]
        counts[v] += 1
        H, W = case["sizes"][v]
        poses[(v, f)] = e2e.make_poses(r, H, W, case["n_nodes"], fr["n_animals"], body=13.0, min_sep_factor=2.4) if fr["n_animals"] else []
        keys.append((v, f))
    vids = [(case["sizes"][v][0], case["sizes"][v][1], max(counts[v], 1)) for v in (0, 1)]
    edges = [(0, 1), (1, 2)] if case["model"] == "bottomup" else None
    if case.get("ties"):  # centroids exactly on cells of the centroid grid, so that equal amplitudes give exactly equal peak values
        st = case["stride"]
        for P in poses.values():
            for p in P:
                c = on.centroid_of(p, None)
                p += np.round(c / st) * st - c
    sf = e2e.SceneFiles("C12", name, vids, case["n_nodes"], edges, poses)
    if case.get("ties"):
        for key in keys:
            code = sf.code_of[key]
            n = len(sf.scene.poses[code])
            sf.scene.amplitude[code] = [1.0, 0.75, 0.75, 0.75, 0.75][:n] if n else []
    return sf, keys


def make_pred(case, sf, batch, log):
    mh = max(s[0] for s in case["sizes"])
    mw = max(s[1] for s in case["sizes"])
    max_hw = (mh, mw)
    if case["model"] == "single":
        pred, _ = e2e.single_predictor(sf, case["stride"], 1.5, 1.0, max_hw, 16, batch, case["refinement"], log)
    elif case["model"] == "topdown":
        pred, _, _ = e2e.topdown_predictor(sf, case["stride"], 2, 1.5, 1.0, 1.0, max_hw, 16, 64, batch, case["refinement"], None, case["max_instances"], log)
    else:
        # the library's default edge-length ratio (0.25): in the small frames of the big-batch cases the longer limbs get a distance penalty
        pred, _ = e2e.bottomup_predictor(sf, case["stride"], case["stride"], 0.75, max(1.5 * case["stride"], 3.0), 1.0, max_hw, 16, batch, case["refinement"], log, max_edge_length_ratio=0.25)
    return pred, max_hw


def collect(case, outs, scores=None):
    """{(video, frame): sorted list of instance point arrays (n_nodes,2)} using the indices the records carry."""
    by = {}
    n = case["n_nodes"]
    for o in outs:
        if case["model"] == "bottomup":
            for vi, fi, inst, sc in zip(o["video_idx"], o["frame_idx"], o["pred_instance_peaks"], o["instance_scores"]):
                by.setdefault((int(vi), int(fi)), []).extend(list(np.asarray(inst, float).reshape(-1, n, 2)))
                if scores is not None:
                    scores.setdefault((int(vi), int(fi)), []).extend(np.asarray(sc, float).reshape(-1).tolist())
        elif case["model"] == "single":
            for vi, fi, pk in zip(o["video_idx"], o["frame_idx"], o["pred_instance_peaks"]):
                by.setdefault((int(vi), int(fi)), []).append(np.asarray(pk, float))
        else:
            for vi, fi, pk, bb in zip(o["video_idx"], o["frame_idx"], o["pred_instance_peaks"], o["instance_bbox"]):
                by.setdefault((int(vi), int(fi)), []).append(np.asarray(pk, float) + np.asarray(bb, float).reshape(4, 2)[0])
    return by


def same_sets(A, B, tol=1e-3):
    if len(A) != len(B):
        return False
    used = set()
    for p in A:
        ok = False
        for j, q in enumerate(B):
            if j in used:
                continue
            if np.array_equal(np.isnan(p), np.isnan(q)) and np.nanmax(np.abs(np.nan_to_num(p - q)), initial=0) <= tol:
                used.add(j)
                ok = True
                break
        if not ok:
            return False
    return True


def check(ctx, case):
    import shutil

    name = f"c{case['i']}_{case['seed'] % 10 ** 6}"
    sf, keys = build(case, name)
    small = dict(case)
    r = np.random.default_rng(case["seed"] + 1)
    try:
        # reference: canonical order, one frame per batch
        log = []
        pred, max_hw = make_pred(case, sf, 1, log)
        ref_path = sf.write_labels(keys, "ref.slp")
        try:
            ref_scores = {}
            ref = collect(case, e2e.run(pred, "LabelsReader", sf, labels_path=ref_path), ref_scores)
        except Exception as e:
            import traceback

            fr = [f for f in traceback.extract_tb(e.__traceback__) if "/sleap_nn/" in f.filename]
            if not fr and not isinstance(e, TimeoutError):
                raise
            ctx.violation(f"exception:{type(e).__name__}@{fr[-1].name if fr else 'run'}", f"reference run ({case['model']}): {type(e).__name__}: {str(e)[:200]}", small)
            ctx.tick()
            return
        ctx.count("reference_runs")
        ctx.count("network_calls", len(log))
        # the solo run itself against the scene: index carrying + cap + empty frames
        for key in keys:
            poses = [p for p in sf.scene.poses[sf.code_of[key]] if not np.isnan(p).all()]
            got = ref.get(key, [])
            ctx.count("frames_vs_scene")
            H, W = case["sizes"][key[0]]
            eff = e2e.eff_scale_for(H, W, max_hw)
            tol = e2e.tol(2 if case["model"] == "topdown" else case["stride"], H, W, max_hw, 1.0)
            if case["model"] == "single":
                if len(got) != 1:
                    ctx.violation("record-count", f"single-instance: frame {key} has {len(got)} records in the solo run", small)
                    continue
                if not poses:
                    if not np.isnan(got[0]).all():
                        ctx.violation("empty-frame-has-detections", f"single-instance: empty frame {key} yields coordinates", small)
                    continue
                want = [poses[0]]
            else:
                want = poses
                if case["model"] == "topdown" and case["max_instances"] is not None and len(poses) > case["max_instances"]:
                    amps = sf.scene.amplitude[sf.code_of[key]][: len(sf.scene.poses[sf.code_of[key]])]
                    order = np.argsort(-np.array(amps[: len(poses)]))[: case["max_instances"]]
                    want = [poses[j] for j in sorted(order)]
                    ctx.count("capped_frames")
                    cut = sorted(amps[: len(poses)], reverse=True)[case["max_instances"] - 1]
                    if sum(1 for a_ in amps[: len(poses)] if a_ >= cut) > case["max_instances"]:
                        # a tie across the cut: exactly max_instances records, all of amplitude >= the cut value, every animal above it kept
                        ctx.count("capped_frames_with_tie_at_cut")
                        if len(got) != case["max_instances"]:
                            ctx.violation("cap-not-applied", f"topdown: frame {key} yields {len(got)} instances with max_instances={case['max_instances']} (amplitudes {amps[:len(poses)]}, tie at the cut)", small)
                            continue
                        kept = []
                        for q in got:
                            d = [np.nanmax(np.abs(q - g)) for g in poses]
                            kept.append(int(np.argmin(d)) if min(d) <= tol + 1e-6 else None)
                        if None in kept or len(set(kept)) != len(kept) or any(amps[j] < cut for j in kept) or any(amps[j] > cut and j not in kept for j in range(len(poses))):
                            ctx.violation("cap-keeps-wrong-instances", f"topdown: frame {key}: kept animals {kept} for amplitudes {amps[:len(poses)]} and max_instances={case['max_instances']}", small)
                        continue
                if case["model"] == "bottomup":
                    want = [p for p in poses]  # every animal is fully visible and connected in these scenes
                if len(got) != len(want):
                    key_ = "cap-not-applied" if (case["max_instances"] and len(poses) > case["max_instances"]) else ("empty-frame-has-detections" if not poses else "instance-count")
                    ctx.violation(key_, f"{case['model']}: frame {key} yields {len(got)} instances, expected {len(want)} (animals {len(poses)}, max_instances {case['max_instances']})", small)
                    continue
            # each expected animal is matched by one record within tolerance (records carry the right indices)
            used = set()
            for g in want:
                d = [np.nanmax(np.abs(q - g)) if j not in used and not np.isnan(q).all() else np.inf for j, q in enumerate(got)]
                j = int(np.argmin(d)) if d else -1
                if j < 0 or d[j] > tol + 1e-6:
                    key_ = "cap-keeps-wrong-instances" if (case["max_instances"] and len(poses) > case["max_instances"]) else "record-does-not-match-its-frame"
                    ctx.violation(key_, f"{case['model']}: frame {key}: no record within {tol:.2f} px of a labelled animal (closest {min(d) if d else None}); the record's frame/video index does not identify the frame it was computed from, or the wrong instances were kept", small)
                    break
                used.add(j)
        # variants: different batch sizes, compositions and orders
        F = len(keys)
        perms = list(itertools.permutations(range(F))) if F <= 4 else [tuple(r.permutation(F)) for _ in range(6)]
        if ctx.tier == "quick" and len(perms) > 5:
            perms = [perms[j] for j in r.choice(len(perms), 5, replace=False)]
        if case.get("big"):
            perms = perms[:2]
        mixed = False
        for pi, perm in enumerate(perms):
            batch = int(r.integers(2, 6))
            order = [keys[j] for j in perm]
            if case.get("big") and pi == 0:
                batch = len(order)  # every frame in one batch
                ctx.count("big_batches")
                n_pk = sum(int((~np.isnan(p_).any(-1)).sum()) for k_ in order for p_ in sf.scene.poses[sf.code_of[k_]])
                if n_pk > 512:
                    ctx.count("batches_with_more_than_512_peaks")
            if pi % 3 == 2 and F > 2:  # different composition: drop a frame
                order = order[:-1]
            path = sf.write_labels(order, f"perm{pi}.slp")
            log = []
            pred, _ = make_pred(case, sf, batch, log)
            try:
                got_scores = {}
                got = collect(case, e2e.run(pred, "LabelsReader", sf, labels_path=path), got_scores)
            except Exception as e:
                import traceback

                fr = [f for f in traceback.extract_tb(e.__traceback__) if "/sleap_nn/" in f.filename]
                if not fr and not isinstance(e, TimeoutError):
                    raise
                ctx.violation(f"exception:{type(e).__name__}@{fr[-1].name if fr else 'run'}", f"{case['model']} batch {batch} order {order}: {type(e).__name__}: {str(e)[:200]}", small)
                continue
            ctx.count("variant_runs")
            for key in order:
                ctx.count("frame_comparisons")
                a, b = ref.get(key, []), got.get(key, [])
                if not same_sets(a, b):
                    ctx.violation("batch-dependence", f"{case['model']}: frame {key} gives {len(b)} instances in a batch of {batch} (order {order}) but {len(a)} alone, or different coordinates", small)
                    break
                sa, sb = sorted(ref_scores.get(key, [])), sorted(got_scores.get(key, []))
                if case["model"] == "bottomup":
                    ctx.count("instance_score_comparisons")
                    if len(sa) != len(sb) or (sa and np.abs(np.array(sa) - np.array(sb)).max() > 1e-4):
                        ctx.violation("batch-dependence", f"bottomup: instance scores of frame {key} are {np.round(sb, 4).tolist()} in a batch of {batch} but {np.round(sa, 4).tolist()} alone", small)
                        break
            extra = set(got) - set(order)
            if extra:
                ctx.violation("record-for-unknown-frame", f"{case['model']}: records carry indices {sorted(extra)} that were not in the batch", small)
            n_an = [len([p for p in sf.scene.poses[sf.code_of[k]] if not np.isnan(p).all()]) for k in order]
            if batch >= 2 and len(set(order)) >= 2 and (0 in n_an or (case["max_instances"] and max(n_an) > case["max_instances"])):
                mixed = True
        if case["model"] in ("topdown", "bottomup") and case["i"] % 2 == 0:
            check_labels_assembly(ctx, case, sf, keys, small, ref_path)
    finally:
        shutil.rmtree(sf.dir, ignore_errors=True)
    comp = tuple((fr["video"], fr["n_animals"]) for fr in case["frames"])
    ctx.tick((case["model"], comp, case["max_instances"], case["refinement"], case["stride"]) if mixed else None, sample=small if ctx.evaluations < 3 else None)


def check_labels_assembly(ctx, case, sf, keys, small, ref_path):
    """predict(make_labels=True): the labelled frames must hold the same instances as the raw records
    (bbox offset re-added for top-down); with max_instances on the bottom-up predictor the kept
    instances are the highest-scoring ones. Needs the legacy sleap-io keyword shim; if that path
    cannot run in this environment the sub-check is inconclusive (counted), never held."""
    from vf import compat

    try:
        compat.install_legacy_sio()
        cap = 2 if case["model"] == "bottomup" else case["max_instances"]
        log = []
        if case["model"] == "bottomup":
            mh, mw = max(s_[0] for s_ in case["sizes"]), max(s_[1] for s_ in case["sizes"])
            raw_pred, _ = e2e.bottomup_predictor(sf, case["stride"], case["stride"], 0.75, max(1.5 * case["stride"], 3.0), 1.0, (mh, mw), 16, 3, case["refinement"], log)
            lab_pred, _ = e2e.bottomup_predictor(sf, case["stride"], case["stride"], 0.75, max(1.5 * case["stride"], 3.0), 1.0, (mh, mw), 16, 3, case["refinement"], log, max_instances=cap)
        else:
            raw_pred, _ = make_pred(case, sf, 3, log)
            lab_pred, _ = make_pred(case, sf, 3, log)
        raw = e2e.run(raw_pred, "LabelsReader", sf, labels_path=ref_path)
        lab_pred.make_pipeline("LabelsReader", ref_path, queue_maxsize=4)
        labels = lab_pred.predict(make_labels=True)
    except Exception as e:
        import traceback

        fr = [f for f in traceback.extract_tb(e.__traceback__) if "/sleap_nn/" in f.filename]
        if fr and fr[-1].name != "_make_labeled_frames_from_generator":
            ctx.violation(f"exception:{type(e).__name__}@{fr[-1].name}", f"make_labels=True run ({case['model']}): {type(e).__name__}: {str(e)[:200]}", small)
        else:
            ctx.count("labels_assembly_inconclusive")
        return
    ctx.count("labels_assembly_runs")
    n = case["n_nodes"]
    want = {}
    for o in raw:
        if case["model"] == "bottomup":
            for vi, fi, inst, sc in zip(o["video_idx"], o["frame_idx"], o["pred_instance_peaks"], o["instance_scores"]):
                P = np.asarray(inst, float).reshape(-1, n, 2)
                S = np.asarray(sc, float).reshape(-1)
                order = np.argsort(-S, kind="stable")[:cap]
                want[(int(vi), int(fi))] = [P[j] for j in order]
        else:
            for vi, fi, pk, bb in zip(o["video_idx"], o["frame_idx"], o["pred_instance_peaks"], o["instance_bbox"]):
                want.setdefault((int(vi), int(fi)), []).append(np.asarray(pk, float) + np.asarray(bb, float).reshape(4, 2)[0])
    got = {}
    for lf in labels:
        key = (labels.videos.index(lf.video), int(lf.frame_idx))
        got.setdefault(key, []).extend([inst.numpy() for inst in lf.instances])
    for key in set(want) | set(got):
        ctx.count("labelled_frames_compared")
        if not same_sets(want.get(key, []), got.get(key, []), tol=1e-3):
            k = "cap-keeps-wrong-instances" if case["model"] == "bottomup" and len(want.get(key, [])) == cap else "labelled-frame-differs-from-records"
            ctx.violation(k, f"{case['model']}: labelled frame {key} holds {len(got.get(key, []))} instances that differ from the raw records "
                             f"({len(want.get(key, []))} expected{', top-%d by instance score' % cap if case['model'] == 'bottomup' else ''})", small)


def finalize(ctx):
    ctx.require("reference_runs", 6)
    ctx.require("variant_runs", 12)
    ctx.require("frame_comparisons", 40)
    ctx.require("big_batches", 1)
    ctx.require("batches_with_more_than_512_peaks", 1)
    ctx.require("capped_frames_with_tie_at_cut", 1)


LEVEL_TEXT = ("The three real predictors run the same coordinate-coded frames one per batch and in batches of other sizes, compositions and orders (permuted labels files over two videos "
              "of different size, empty frames mixed in); per-frame outputs grouped by the indices the records carry must equal the solo output and match the scene ground truth of "
              "that frame, empty frames yield nothing, and with max_instances the kept centroids are those with the largest (known) amplitudes. Exploration over seeded scenes.")
LEVEL_NOTE = "Trusted: vf/oracle_net.py, vf/e2e.py; permutations are exhaustive up to 4 frames in the thorough tier and sampled otherwise."
TECHNIQUE = "runtime monitoring: metamorphic batch-composition comparison at the predictor output with oracle networks (pixel-decoded frame identity)"
