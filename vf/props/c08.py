"""C08 — PAF grouping terminates with a partition of the detected peaks.

Events: returns of match_candidates_sample (captured by a rebinding probe), the six-tuple
returned by PAFScorer.predict, any exception. Oracle: one-to-one + brute-force optimal
per-edge matching, union-find components of the accepted matches, score sums."""
import itertools

import numpy as np

from vf.core import unjson_array

LEVEL = "exploration"
RULE = ("seeded batches (1-3 samples): random rooted tree skeletons (2-6 nodes, shuffled listing) x 0-4 peaks per node (inside / outside the PAF extent, coincident "
        "peaks of the same and of different node types, empty and single-peak samples) x PAF tensors {N(0,1), structured along true edges, zeros} x n_points{1,2,5,10} x "
        "min_line_scores{-2,0,0.25,0.9} x min_instance_peaks{0,1,2,3,fractions} x max_edge_length_ratio{0.05,0.25,1}; non-trivial = sample with >=2 accepted matches over "
        ">=2 edge types or a degenerate geometry class; distinct by (n_nodes, n_edges, peaks-per-node pattern, paf kind, params, degenerate class)")
ASSUMPTIONS = ["peak scores within a sample are pairwise distinct so a predicted (coordinate, score) identifies one input peak",
               "fractional min_instance_peaks only where fraction*n_nodes is exactly an integer",
               "when a candidate pair has a NaN line score (coincident peaks) only one-to-one-ness and non-use of NaN matches are asserted, not optimality"]
SHARDS = {"quick": 4, "thorough": 16}
N = {"quick": 1400, "thorough": 1400000}
BUDGET = {"quick": 110, "thorough": 600}
TIMEOUT = {"quick": 600, "thorough": 3000}
SELF_SHARDED = True
KEY_COINCIDENT = "infeasible-assignment-on-coincident-src-dst-peaks"


def rand_tree(r, n):
    perm = r.permutation(n)
    edges = [[int(perm[r.integers(0, k)]), int(perm[k])] for k in range(1, n)]
    order = r.permutation(len(edges))
    return [edges[j] for j in order]


def gen_case(ctx, i):
    r = ctx.rng(8, i)
    n_nodes = int(r.integers(2, 7))
    edges = rand_tree(r, n_nodes)
    E = len(edges)
    stride = int(r.choice([1, 2, 4, 8]))
    gh, gw = int(r.integers(4, 17)), int(r.integers(4, 17))
    S = int(r.integers(1, 4))
    kind = str(r.choice(["noise", "noise", "structured", "zeros"]))
    H, W = gh * stride, gw * stride
    samples = []
    degen = set()
    pafs = np.zeros((S, gh, gw, 2 * E), np.float32)
    for s in range(S):
        mode = str(r.choice(["normal", "normal", "normal", "empty", "single", "coincident", "outside", "animals"]))
        pts, ch = [], []
        if mode == "empty":
            degen.add("empty")
        elif mode == "single":
            pts.append([r.uniform(0, W), r.uniform(0, H)])
            ch.append(int(r.integers(0, n_nodes)))
            degen.add("single")
        elif mode == "animals":
            n_an = int(r.integers(1, 4))
            for a in range(n_an):
                c0 = np.array([r.uniform(0.1 * W, 0.9 * W), r.uniform(0.1 * H, 0.9 * H)])
                P = c0 + r.normal(0, 0.12 * min(H, W), (n_nodes, 2))
                for k in range(n_nodes):
                    if r.random() < 0.85:
                        pts.append(P[k].tolist())
                        ch.append(k)
                if kind == "structured":
                    for e, (a_, b_) in enumerate(edges):
                        d = P[b_] - P[a_]
                        L = np.hypot(*d)
                        if L == 0:
                            continue
                        yy, xx = np.mgrid[0:gh, 0:gw] * stride
                        t = np.clip(((xx - P[a_][0]) * d[0] + (yy - P[a_][1]) * d[1]) / L ** 2, 0, 1)
                        dist = np.hypot(xx - (P[a_][0] + t * d[0]), yy - (P[a_][1] + t * d[1]))
                        w = np.exp(-dist ** 2 / (2 * (1.5 * stride) ** 2))
                        pafs[s, :, :, 2 * e] += w * d[0] / L
                        pafs[s, :, :, 2 * e + 1] += w * d[1] / L
        else:
            for k in range(n_nodes):
                for _ in range(int(r.integers(0, 5))):
                    if mode == "outside" and r.random() < 0.5:
                        pts.append([r.uniform(-2 * W, 3 * W), r.uniform(-2 * H, 3 * H)])
                        degen.add("outside")
                    else:
                        pts.append([r.uniform(0, W - 1), r.uniform(0, H - 1)])
                    ch.append(k)
            if mode == "coincident" and len(pts) >= 2:
                for _ in range(int(r.integers(1, 3))):
                    a_, b_ = r.choice(len(pts), 2, replace=False)
                    pts[b_] = list(pts[a_])
                    degen.add("coincident-same-node" if ch[a_] == ch[b_] else "coincident-diff-node")
        if r.random() < 0.5 and pts:  # integer grid peaks (as unrefined peak finding gives)
            pts = (np.round(np.array(pts) / stride) * stride).tolist()
        order = r.permutation(len(pts))
        pts = [pts[j] for j in order]
        ch = [ch[j] for j in order]
        vals = (0.3 + 0.6 * r.permutation(len(pts)) / max(len(pts), 1)).tolist()
        samples.append({"peaks": pts, "channels": ch, "vals": vals})
    if kind == "noise":
        pafs = r.normal(0, 1, pafs.shape).astype(np.float32)
    elif kind == "structured":
        pafs += r.normal(0, 0.05, pafs.shape).astype(np.float32)
    n = n_nodes
    mip_choices = [0, 1, 2, 3, 1.0]
    if n % 2 == 0:
        mip_choices.append(0.5)
    if n % 4 == 0:
        mip_choices.append(0.25)
    mip = mip_choices[int(r.integers(0, len(mip_choices)))]
    return {"i": i, "n_nodes": n_nodes, "edges": edges, "stride": stride, "paf_kind": kind, "pafs": pafs, "samples": samples,
            "n_points": int(r.choice([1, 2, 5, 10])), "min_line_scores": float(r.choice([-2, 0, 0.25, 0.9])),
            "min_instance_peaks": mip, "max_edge_length_ratio": float(r.choice([0.05, 0.25, 1.0])), "degen": sorted(degen)}


def directed(ctx):
    # DESIGN §4-C08 witness: a source and a destination peak on the same pixel
    pafs = np.zeros((1, 8, 8, 2), np.float32)
    pafs[..., 0] = 1.0
    yield {"i": -1, "n_nodes": 2, "edges": [[0, 1]], "stride": 2, "paf_kind": "directed", "pafs": pafs,
           "samples": [{"peaks": [[4.0, 4.0], [4.0, 4.0]], "channels": [0, 1], "vals": [0.9, 0.8]}],
           "n_points": 5, "min_line_scores": 0.25, "min_instance_peaks": 0, "max_edge_length_ratio": 0.25, "degen": ["coincident-diff-node"]}
    yield {"i": -2, "n_nodes": 3, "edges": [[1, 2], [0, 1]], "stride": 2, "paf_kind": "directed", "pafs": np.tile(pafs, (1, 1, 1, 2)),
           "samples": [{"peaks": [[2.0, 4.0], [8.0, 4.0], [8.0, 4.0], [14.0, 4.0], [2.0, 10.0]], "channels": [0, 1, 2, 2, 1], "vals": [0.9, 0.8, 0.7, 0.6, 0.5]}],
           "n_points": 5, "min_line_scores": 0.25, "min_instance_peaks": 0, "max_edge_length_ratio": 0.25, "degen": ["coincident-diff-node"]}


def cases(ctx):
    for i in range(N[ctx.tier]):
        if i % ctx.nshards == ctx.shard:
            yield gen_case(ctx, i)


_CAPTURE = []
_INSTALLED = {}


def install_probe():
    from sleap_nn.inference import paf_grouping as pg

    if _INSTALLED.get("orig") is pg.match_candidates_sample or getattr(pg.match_candidates_sample, "_vf_probe", False):
        return
    orig = pg.match_candidates_sample

    def probe(edge_inds_sample, edge_peak_inds_sample, line_scores_sample, n_edges):
        rec = {"edge_inds": edge_inds_sample.clone(), "edge_peak_inds": edge_peak_inds_sample.clone(), "line_scores": line_scores_sample.clone()}
        _CAPTURE.append(rec)
        out = orig(edge_inds_sample, edge_peak_inds_sample, line_scores_sample, n_edges)
        rec["out"] = out
        return out

    probe._vf_probe = True
    pg.match_candidates_sample = probe


def brute_best(score):
    """max total over complete one-to-one assignments of the smaller side (finite scores)."""
    n, m = score.shape
    best = -np.inf
    if n <= m:
        for cols in itertools.permutations(range(m), n):
            best = max(best, sum(score[a, cols[a]] for a in range(n)))
    else:
        for rows in itertools.permutations(range(n), m):
            best = max(best, sum(score[rows[b], b] for b in range(m)))
    return best


def check(ctx, case):
    import torch
    from scipy.optimize import linear_sum_assignment
    from sleap_nn.inference import paf_grouping as pg

    install_probe()
    n_nodes, edges, stride = case["n_nodes"], [tuple(e) for e in case["edges"]], case["stride"]
    E = len(edges)
    pafs = case["pafs"] if isinstance(case["pafs"], np.ndarray) else unjson_array(case["pafs"], np.float32)
    pafs = np.ascontiguousarray(pafs, np.float32)
    S = pafs.shape[0]
    names = [f"n{k}" for k in range(n_nodes)]
    mip = case["min_instance_peaks"]
    scorer = pg.PAFScorer(part_names=names, edges=[(names[a], names[b]) for a, b in edges], pafs_stride=stride,
                          max_edge_length_ratio=case["max_edge_length_ratio"], n_points=case["n_points"],
                          min_instance_peaks=mip, min_line_scores=case["min_line_scores"])
    peaks_l, vals_l, ch_l = [], [], []
    for smp in case["samples"]:
        peaks_l.append(torch.tensor(np.array(smp["peaks"], np.float32).reshape(-1, 2)))
        vals_l.append(torch.tensor(np.array(smp["vals"], np.float32).reshape(-1)))
        ch_l.append(torch.tensor(np.array(smp["channels"], np.int32).reshape(-1)))
    small = {k: case[k] for k in ("i", "n_nodes", "edges", "stride", "paf_kind", "samples", "n_points", "min_line_scores", "min_instance_peaks", "max_edge_length_ratio", "degen")}
    small["pafs"] = pafs
    _CAPTURE.clear()

    def coincident_pair():
        for smp in case["samples"]:
            P, C = np.array(smp["peaks"], np.float32).reshape(-1, 2), np.array(smp["channels"])
            for a, b in edges:
                for pa in P[C == a]:
                    for pb in P[C == b]:
                        if np.all(pa == pb):
                            return True
        return False

    try:
        # same values, three memory layouts: contiguous channels-last; a permuted view of a channels-first tensor (what the bottom-up layer
        # passes: pafs.permute(0, 2, 3, 1)); a spatial window of a larger tensor
        lay = abs(int(case["i"])) % 3
        if lay == 0:
            paf_t = torch.from_numpy(pafs.copy())
        elif lay == 1:
            paf_t = torch.from_numpy(np.ascontiguousarray(pafs.transpose(0, 3, 1, 2))).permute(0, 2, 3, 1)
        else:
            big = torch.zeros((pafs.shape[0], pafs.shape[1] + 3, pafs.shape[2] + 2, pafs.shape[3]), dtype=torch.float32)
            big[:, 1:1 + pafs.shape[1], 2:2 + pafs.shape[2]] = torch.from_numpy(pafs)
            paf_t = big[:, 1:1 + pafs.shape[1], 2:2 + pafs.shape[2]]
        ctx.count(f"paf_layout_{lay}")
        out = scorer.predict(paf_t, torch.nested.nested_tensor(peaks_l), torch.nested.nested_tensor(vals_l), torch.nested.nested_tensor(ch_l))
    except Exception as e:
        if isinstance(e, ValueError) and "infeasible" in str(e) and coincident_pair():
            ctx.violation(KEY_COINCIDENT, f"PAFScorer.predict raised {type(e).__name__}: {e} (a source and a destination peak share a pixel -> NaN line score)", small)
        else:
            import traceback

            fr = [f for f in traceback.extract_tb(e.__traceback__) if "/sleap_nn/" in f.filename]
            ctx.violation(f"exception:{type(e).__name__}@{fr[-1].name if fr else '?'}", f"grouping raised {type(e).__name__}: {e}", small)
        ctx.tick((n_nodes, E, case["paf_kind"], tuple(case["degen"]), "exc"))
        return
    ctx.count("predict_calls")
    pred_inst, pred_scores, inst_scores = out[0], out[1], out[2]
    if len(_CAPTURE) != S:
        ctx.note_inconclusive(f"probe captured {len(_CAPTURE)} match_candidates_sample calls for {S} samples")
        ctx.tick()
        return
    nt = False
    for s in range(S):
        smp = case["samples"][s]
        P = np.array(smp["peaks"], np.float32).reshape(-1, 2)
        C = np.array(smp["channels"], np.int64).reshape(-1)
        V = np.array(smp["vals"], np.float32).reshape(-1)
        rec = _CAPTURE[s]
        c_edge = rec["edge_inds"].numpy()
        c_pk = rec["edge_peak_inds"].numpy().reshape(-1, 2)
        c_sc = rec["line_scores"].numpy().astype(np.float64)
        m_edge, m_src, m_dst, m_sc = [t.numpy() for t in rec["out"]]
        node_peaks = [np.where(C == k)[0] for k in range(n_nodes)]  # node-grouped -> global index
        accepted = []  # (edge k, global src, global dst, score)
        for k, (a, b) in enumerate(edges):
            na, nb = len(node_peaks[a]), len(node_peaks[b])
            sel = c_edge == k
            if sel.sum() != na * nb:
                ctx.violation("candidates", f"edge {k}: {sel.sum()} candidates for {na}x{nb} peaks", small)
                continue
            score = np.full((na, nb), np.nan)
            for (gs, gd), sc in zip(c_pk[sel], c_sc[sel]):
                ia, ib = np.where(node_peaks[a] == gs)[0], np.where(node_peaks[b] == gd)[0]
                if len(ia) != 1 or len(ib) != 1:
                    ctx.violation("candidates", f"edge {k}: candidate ({gs},{gd}) does not join a peak of node {a} to a peak of node {b}", small)
                    break
                score[ia[0], ib[0]] = sc
            msel = m_edge == k
            ms, md, msc = m_src[msel].astype(int), m_dst[msel].astype(int), m_sc[msel].astype(np.float64)
            ctx.count("edge_matchings_checked")
            if len(set(ms.tolist())) != len(ms) or len(set(md.tolist())) != len(md):
                ctx.violation("match-not-one-to-one", f"edge {k}: matches src {ms.tolist()} dst {md.tolist()} reuse a peak", small)
                continue
            if len(ms) and (ms.max() >= na or md.max() >= nb):
                ctx.violation("match-index-range", f"edge {k}: match index outside the {na}x{nb} peaks of its node types", small)
                continue
            finite = np.isfinite(score)
            for x, y, sc in zip(ms, md, msc):
                if np.isfinite(sc) and not (finite[x, y] and abs(score[x, y] - sc) <= 1e-5 * max(1, abs(sc))):
                    ctx.violation("match-score", f"edge {k}: match ({x},{y}) carries score {sc} but the line score of that pair is {score[x, y]}", small)
            if na and nb and finite.all():
                if len(ms) != min(na, nb):
                    ctx.violation("match-incomplete", f"edge {k}: {len(ms)} matches for {na}x{nb} finite candidates", small)
                else:
                    tot = float(sum(score[x, y] for x, y in zip(ms, md)))
                    if max(na, nb) <= 5:
                        best = brute_best(score)
                    else:
                        rr, cc = linear_sum_assignment(-score)
                        best = float(score[rr, cc].sum())
                    ctx.count("optimality_checks")
                    if tot < best - 1e-4 * max(1.0, abs(best)):
                        ctx.violation("match-not-optimal", f"edge {k}: matched total {tot:.6g} < optimum {best:.6g} over one-to-one assignments", small)
            for x, y, sc in zip(ms, md, msc):
                if np.isfinite(sc) and sc >= case["min_line_scores"]:
                    accepted.append((k, int(node_peaks[a][x]), int(node_peaks[b][y]), float(sc)))
        # expected instances: union-find components of accepted matches
        parent = {}

        def find(x):
            while parent.setdefault(x, x) != x:
                parent[x] = parent[parent[x]]
                x = parent[x]
            return x

        for k, gs, gd, sc in accepted:
            parent[find(gs)] = find(gd)
        comps = {}
        for x in list(parent):
            comps.setdefault(find(x), set()).add(x)
        cscore = {}
        for k, gs, gd, sc in accepted:
            cscore[find(gs)] = cscore.get(find(gs), 0.0) + sc
        thr = int(mip * n_nodes) if isinstance(mip, float) else mip
        exp = {frozenset(v): cscore.get(root, 0.0) for root, v in comps.items() if len(v) >= thr}
        # observed instances
        pi = pred_inst[s].numpy() if hasattr(pred_inst[s], "numpy") else np.asarray(pred_inst[s])
        ps = pred_scores[s].numpy()
        isc = inst_scores[s].numpy()
        ctx.count("samples_checked")
        if pi.ndim != 3 or pi.shape[1:] != (n_nodes, 2) or ps.shape != pi.shape[:2] or isc.shape != (pi.shape[0],):
            ctx.violation("output-shape", f"sample {s}: instance arrays have shapes {pi.shape}, {ps.shape}, {isc.shape}", small)
            continue
        got = {}
        bad = False
        used = set()
        for j in range(pi.shape[0]):
            members = set()
            for k in range(n_nodes):
                if np.isnan(pi[j, k]).all() and np.isnan(ps[j, k]):
                    continue
                cand = [g for g in node_peaks[k] if V[g] == ps[j, k] and np.array_equal(P[g], pi[j, k])]
                if len(cand) != 1:
                    ctx.violation("not-an-input-peak", f"sample {s} instance {j} node {k}: ({pi[j, k].tolist()}, {ps[j, k]}) is not an input peak of that node type with its score", small)
                    bad = True
                    break
                if cand[0] in used:
                    ctx.violation("peak-in-two-instances", f"sample {s}: peak {cand[0]} appears in two instances", small)
                    bad = True
                    break
                used.add(cand[0])
                members.add(int(cand[0]))
            if bad:
                break
            got[frozenset(members)] = float(isc[j])
        if bad:
            continue
        if set(got) != set(exp):
            ctx.violation("not-the-components", f"sample {s}: instances {sorted(map(sorted, got))} != connected components of accepted matches {sorted(map(sorted, exp))} (min_instance_peaks={mip})", small)
            continue
        for mset, sc in got.items():
            if abs(sc - exp[mset]) > 1e-4 * max(1.0, abs(sc)):
                ctx.violation("instance-score", f"sample {s}: instance {sorted(mset)} score {sc} != sum of accepted edge scores {exp[mset]}", small)
        if len(accepted) >= 2 and len({k for k, *_ in accepted}) >= 2:
            nt = True
    nt = nt or bool(case["degen"])
    ppn = tuple(sorted(len(np.where(np.array(case["samples"][0]["channels"]) == k)[0]) for k in range(n_nodes)))
    sig = (n_nodes, E, ppn, case["paf_kind"], case["n_points"], case["min_line_scores"], str(mip), case["max_edge_length_ratio"], tuple(case["degen"])) if nt else None
    ctx.tick(sig, sample={k: small[k] for k in small if k != "pafs"} if case["i"] in (0, 1) else None)


def finalize(ctx):
    ctx.require("predict_calls", 10)
    ctx.require("optimality_checks", 10)
    ctx.require("samples_checked", 10)


LEVEL_TEXT = ("The real PAFScorer.predict runs on seeded hostile peak sets and PAF tensors; a rebinding probe captures each per-sample matching, which is checked for "
              "one-to-one-ness and brute-force optimality, and the returned instances are compared with the union-find components of the accepted matches "
              "(partition, identity of peaks, score sums, minimum-size filter); any exception is a violation. Exploration with exact oracles.")
LEVEL_NOTE = "Trusted: brute-force assignment (<=5x5; scipy above), union-find. Line-score values themselves are taken from the implementation (C03 checks them end to end)."
TECHNIQUE = "runtime monitoring: rebinding probe on the matcher + partition/optimality oracle over seeded inputs"
