"""C19 — training runs complete and leave full artifacts that never contain the API key.

The real ModelTrainer (tiny UNet, 1 step) runs in-process under an audit-hook file-system
monitor: at every write boundary under the output / chunk directories (= the state a crash at
that instant leaves behind) and at exit the whole tree is scanned for the key bytes (incl. zip
members of .ckpt/.npz); artifacts are compared with the supplied / used configuration.
Thorough tier additionally kills a child process at the k-th write boundary for every k."""
import json
import os
import shutil
import subprocess
import sys

import numpy as np

LEVEL = "fault_enumeration"
RULE = ("runs = model type {single_instance, centroid, centered_instance, bottomup} x data framework {torch_dataset, torch_dataset_np_chunks} x tracking {off, on (wandb offline)} x "
        "checkpointing {on, off} x configuration form {plain YAML-loaded, structured builder-made} x chunk deletion {on, off} x optional sections omitted (plain only); the API key is "
        "present in every supplied configuration. quick = a pairwise-covering subset in one process per shard; thorough = the full cross product plus, for a subset, a child process "
        "killed (os._exit) at the k-th write boundary for every k. Crash points = the write boundaries observed by the audit hook (open-for-write, rename/replace/move/copy, remove, "
        "mkdir, rmtree under the output and chunk directories). non-trivial = run with >= 5 write boundaries and the key in the supplied config; distinct by the run tuple")
ASSUMPTIONS = ["tiny UNet (filters 4, max_stride 8), 1 epoch x 1 step on a synthetic 3-frame labels file, CPU, wandb in offline mode (no network)",
               "crash points are the write boundaries visible to sys.addaudithook in the training process; files written by the separate wandb service process are covered by the scans only",
               "'equal to the configuration supplied' = the supplied configuration after the trainer's own normalisation (verify_training_cfg) with the key blanked"]
SHARDS = {"quick": 5, "thorough": 16}
BUDGET = {"quick": 150, "thorough": 2400}
TIMEOUT = {"quick": 900, "thorough": 3400}
SELF_SHARDED = True
KEY = "VFKEY-9f3c1e77a2-SECRET"
MODELS = ["single_instance", "centroid", "centered_instance", "bottomup"]
_S = {}


def all_runs():
    runs = []
    for model in MODELS:
        for fw in ("torch_dataset", "torch_dataset_np_chunks"):
            for wb in (False, True):
                for ck in (True, False):
                    for form in ("plain", "structured"):
                        runs.append({"model": model, "fw": fw, "use_wandb": wb, "save_ckpt": ck, "form": form, "delete_chunks": True, "omit": None})
    for model, omit in (("centroid", "lr_scheduler"), ("single_instance", "early_stopping"), ("bottomup", "lr_scheduler")):
        runs.append({"model": model, "fw": "torch_dataset", "use_wandb": False, "save_ckpt": True, "form": "plain", "delete_chunks": True, "omit": omit})
    for model in ("centroid", "bottomup"):
        runs.append({"model": model, "fw": "torch_dataset_np_chunks", "use_wandb": True, "save_ckpt": True, "form": "plain", "delete_chunks": False, "omit": None})
    # checkpoint-callback settings other than the default (save_top_k=1, save_last=True): [save_top_k, save_last]
    for model, form, wb, ckpt in (("centroid", "structured", False, [0, True]), ("single_instance", "plain", True, [0, True]), ("bottomup", "plain", False, [-1, False]),
                                  ("centered_instance", "structured", True, [-1, None]), ("centroid", "plain", False, [2, True]), ("single_instance", "structured", False, [1, False])):
        runs.append({"model": model, "fw": "torch_dataset", "use_wandb": wb, "save_ckpt": True, "form": form, "delete_chunks": True, "omit": None, "ckpt": ckpt})
    return runs


def quick_subset():
    """Pairwise-covering subset (every pair of factor levels appears at least once)."""
    runs = all_runs()
    factors = ["model", "fw", "use_wandb", "save_ckpt", "form"]
    need = set()
    for a in range(len(factors)):
        for b in range(a + 1, len(factors)):
            for r in runs:
                need.add((factors[a], r[factors[a]], factors[b], r[factors[b]]))
    chosen = []
    pool = [r for r in runs if r["omit"] is None and r["delete_chunks"] and not r.get("ckpt")]
    while need:
        best, gain = None, -1
        for r in pool:
            g = sum(1 for a in range(len(factors)) for b in range(a + 1, len(factors)) if (factors[a], r[factors[a]], factors[b], r[factors[b]]) in need)
            if g > gain:
                best, gain = r, g
        chosen.append(best)
        for a in range(len(factors)):
            for b in range(a + 1, len(factors)):
                need.discard((factors[a], best[factors[a]], factors[b], best[factors[b]]))
    chosen += [r for r in runs if r["omit"] is not None][:2] + [r for r in runs if not r["delete_chunks"]][:1] + [r for r in runs if r.get("ckpt")][:4]
    return chosen


def cases(ctx):
    runs = quick_subset() if ctx.tier == "quick" else all_runs()
    for i, r in enumerate(runs):
        if i % ctx.nshards == ctx.shard:
            yield dict(r, i=i, kind="run")
    # a second training over the chunk files a first one left behind (data_config.use_existing_chunks)
    reuse_runs = [("bottomup", "plain"), ("single_instance", "structured"), ("centered_instance", "plain"), ("centroid", "structured")]
    for j, (m_, f_) in enumerate(reuse_runs if ctx.tier == "thorough" else reuse_runs[:2]):
        if j % ctx.nshards == ctx.shard:
            yield {"i": 3000 + j, "kind": "reuse", "model": m_, "fw": "torch_dataset_np_chunks", "use_wandb": False, "save_ckpt": True, "form": f_, "delete_chunks": False, "omit": None}
    # runs in a child process whose working directory is a scratch folder: the default output directory (save_ckpt_path=None -> "."), and the
    # low-memory fallback of the in-memory framework to chunk files under the working directory
    cwd_runs = [{"model": "centroid", "form": "plain", "mode": "default-dir"}, {"model": "single_instance", "form": "structured", "mode": "low-memory"},
                {"model": "bottomup", "form": "plain", "mode": "low-memory"}, {"model": "centered_instance", "form": "structured", "mode": "default-dir"}]
    for j, r in enumerate(cwd_runs if ctx.tier == "thorough" else cwd_runs[:2]):
        if j % ctx.nshards == ctx.shard:
            yield {"i": 2000 + j, "kind": "cwd", "model": r["model"], "fw": "torch_dataset", "use_wandb": False, "save_ckpt": True, "form": r["form"], "delete_chunks": True, "omit": None,
                   "mode": r["mode"]}
    if ctx.tier == "thorough":
        kills = [r for r in all_runs() if r["form"] == "plain" and r["omit"] is None and r["delete_chunks"] and not r.get("ckpt") and r["model"] in ("centroid", "bottomup")]
        for j, r in enumerate(kills):
            if j % ctx.nshards == ctx.shard:
                yield dict(r, i=1000 + j, kind="kill")


def labels_file(single=False):
    key = "labels1" if single else "labels"
    if key in _S:
        return _S[key]
    import sleap_io as sio
    from vf import synth

    d = synth.workdir("C19")
    rng = np.random.default_rng(19)
    vp = synth.write_h5_video(os.path.join(d, f"train{int(single)}.h5"), rng.integers(0, 255, (3, 64, 64, 1), dtype=np.uint8))
    v = sio.load_video(vp)
    sk = synth.skeleton(2, edges=[(0, 1)])
    frames = []
    for f in range(3):
        animals = [np.array([[14.0 + 3 * f, 16.0], [24.0, 26.0 + f]]), np.array([[40.0, 44.0 - f], [50.0, 36.0]])]
        frames.append((v, f, animals[:1] if single else animals))  # a single-instance model is trained on one animal per frame
    labels = synth.labels_from_poses(frames, sk)
    p = os.path.join(d, f"train{int(single)}.slp")
    sio.save_slp(labels, p)
    _S[key] = p
    return p


def make_config(run, outdir):
    from omegaconf import OmegaConf

    lp = _S.get("labels_override") or labels_file(single=run["model"] == "single_instance")
    model = run["model"]
    chunks = os.path.join(outdir, "chunks") if outdir else None
    head = {"single_instance": {"confmaps": {"part_names": None, "sigma": 1.5, "output_stride": 2}},
            "centroid": {"confmaps": {"anchor_part": 0, "sigma": 1.5, "output_stride": 2}},
            "centered_instance": {"confmaps": {"part_names": None, "anchor_part": 0, "sigma": 1.5, "output_stride": 2}},
            "bottomup": {"confmaps": {"part_names": None, "sigma": 1.5, "output_stride": 2, "loss_weight": 1.0}, "pafs": {"edges": None, "sigma": 4.0, "output_stride": 4, "loss_weight": 1.0}}}[model]
    unet = {"in_channels": 1, "kernel_size": 3, "filters": 4, "filters_rate": 1.5, "max_stride": 8, "convs_per_block": 2, "stacks": 1, "stem_stride": None, "middle_block": True,
            "up_interpolate": True, "output_stride": 2}
    if run["form"] == "structured":
        from sleap_nn.config.training_job_config import TrainingJobConfig
        from sleap_nn.train import get_data_config, get_model_config, get_trainer_config

        dc = get_data_config(train_labels_path=lp, val_labels_path=lp, data_pipeline_fw=run["fw"], np_chunks_path=chunks, delete_chunks_after_training=run["delete_chunks"],
                             crop_hw=(32, 32), min_crop_size=None)
        mc = get_model_config(backbone_config={"unet": {k: v for k, v in unet.items() if k != "output_stride"} | {"output_stride": 2}}, head_configs={model: head})
        tc = get_trainer_config(batch_size=1, num_workers=0, trainer_num_devices=1, trainer_accelerator="cpu", steps_per_epoch=1, max_epochs=1, seed=7, use_wandb=run["use_wandb"],
                                save_ckpt=run["save_ckpt"], save_ckpt_path=outdir, wandb_project="vf", wandb_name="vf-run", wandb_api_key=KEY, wandb_mode="offline",
                                lr_scheduler="step_lr", early_stopping=False, **({"ckpt_save_top_k": run["ckpt"][0], "ckpt_save_last": run["ckpt"][1]} if run.get("ckpt") else {}))
        return TrainingJobConfig(dc, mc, tc).to_sleap_nn_cfg()
    cfg = {
        "data_config": {"provider": "LabelsReader", "train_labels_path": lp, "val_labels_path": lp, "test_file_path": None, "user_instances_only": True, "data_pipeline_fw": run["fw"],
                        "np_chunks_path": chunks, "litdata_chunks_path": None, "use_existing_chunks": False, "delete_chunks_after_training": run["delete_chunks"], "chunk_size": 100,
                        "preprocessing": {"is_rgb": False, "max_width": None, "max_height": None, "scale": 1.0, "crop_hw": [32, 32], "min_crop_size": None},
                        "use_augmentations_train": False, "augmentation_config": None},
        "model_config": {"init_weights": "default", "pre_trained_weights": None, "pretrained_backbone_weights": None, "pretrained_head_weights": None,
                         "backbone_config": {"unet": unet}, "head_configs": {m: (head if m == model else None) for m in MODELS}},
        "trainer_config": {"train_data_loader": {"batch_size": 1, "shuffle": True, "num_workers": 0}, "val_data_loader": {"batch_size": 1, "num_workers": 0},
                           "model_ckpt": {"save_top_k": (run.get("ckpt") or [1, True])[0], "save_last": (run.get("ckpt") or [1, True])[1]}, "early_stopping": {"stop_training_on_plateau": False, "min_delta": 1e-8, "patience": 3},
                           "trainer_devices": 1, "trainer_accelerator": "cpu", "enable_progress_bar": False, "steps_per_epoch": 1, "max_epochs": 1, "seed": 7,
                           "use_wandb": run["use_wandb"], "save_ckpt": run["save_ckpt"], "save_ckpt_path": outdir, "resume_ckpt_path": None,
                           "wandb": {"entity": None, "project": "vf", "name": "vf-run", "wandb_mode": "offline", "api_key": KEY, "prv_runid": None, "group": None},
                           "optimizer_name": "Adam", "optimizer": {"lr": 1e-4, "amsgrad": False},
                           "lr_scheduler": {"step_lr": {"step_size": 5, "gamma": 0.5}}},
    }
    if run["omit"]:
        del cfg["trainer_config"][run["omit"]]
    path = os.path.join(os.path.dirname(outdir), os.path.basename(outdir) + "_supplied.yaml") if outdir else os.path.join(os.getcwd(), "..", "supplied.yaml")
    OmegaConf.save(OmegaConf.create(cfg), path)
    return OmegaConf.load(path)  # genuinely YAML-loaded


def key_location(rel):
    b = os.path.basename(rel.split("::")[0])
    if b == "initial_config.yaml":
        return "api-key-in-initial-config"
    if b == "training_config.yaml":
        return "api-key-in-training-config"
    if b.endswith(".ckpt"):
        return "api-key-in-checkpoint"
    if b == "config.yaml":
        return "api-key-in-chunks-config"
    return "api-key-in:" + b


def blank(container):
    c = json.loads(json.dumps(container, default=str))
    try:
        c["trainer_config"]["wandb"]["api_key"] = ""
    except Exception:
        pass
    return c


def execute(run, outdir, kill_at=None, on_boundary=None):
    """Construct the trainer and train under the file-system monitor. Returns a result dict."""
    from vf import fsaudit

    if outdir:
        os.makedirs(outdir, exist_ok=True)
    cfg = make_config(run, outdir)
    res = {"exc": None, "boundaries": 0, "trainer": None, "cfg": cfg}
    roots = [outdir or os.getcwd()]
    with fsaudit.Watch(roots, callback=on_boundary, kill_at=kill_at) as w:
        try:
            from sleap_nn.training.model_trainer import ModelTrainer

            trainer = ModelTrainer(cfg)
            res["trainer"] = trainer
            trainer.train()
        except BaseException as e:  # noqa
            res["exc"] = e
    res["boundaries"] = w.count
    try:
        import wandb

        if wandb.run is not None:
            wandb.finish()
    except Exception:
        pass
    return res


def classify_exc(run, e):
    msg = str(e)
    name = type(e).__name__
    if "run_id" in msg and run["form"] == "structured":
        return "structured-config-rejects-wandb-run_id"
    if run.get("omit") == "lr_scheduler" and ("NoneType" in msg or "items" in msg or "Missing key lr_scheduler" in msg):
        return "lr_scheduler-none-crashes-configure_optimizers"
    if run.get("omit") == "early_stopping" and ("NoneType" in msg or "stop_training_on_plateau" in msg or "Missing key early_stopping" in msg):
        return "early_stopping-none-crashes-train"
    import traceback

    fr = [f for f in traceback.extract_tb(e.__traceback__) if "/sleap_nn/" in f.filename]
    return f"exception:{name}@{fr[-1].name if fr else '?'}"


def check(ctx, case):
    from omegaconf import OmegaConf
    from vf import fsaudit, synth

    run = {k: case.get(k) for k in ("model", "fw", "use_wandb", "save_ckpt", "form", "delete_chunks", "omit", "ckpt")}
    tag = "-".join(str(v) for v in run.values()).replace("_", "")
    outdir = os.path.join(synth.workdir("C19"), f"run{case['i']}_{tag}")
    shutil.rmtree(outdir, ignore_errors=True)
    small = dict(case)
    needle = KEY.encode()
    sig = tuple(run.values())
    if case["kind"] == "kill":
        return check_kill(ctx, case, run, outdir, small)
    if case["kind"] == "cwd":
        return check_cwd(ctx, case, run, small)
    if case["kind"] == "reuse":
        return check_reuse(ctx, case, run, outdir, small)
    seen = {}

    def on_boundary(event, path, k):
        hits, n = fsaudit.scan_tree([outdir], needle)
        ctx.count("files_scanned_at_boundaries", n)
        for h in hits:
            seen.setdefault(key_location(h), (k, event, os.path.relpath(path, outdir), h))

    try:
        res = execute(run, outdir, on_boundary=on_boundary)
        ctx.count("runs")
        ctx.count("write_boundaries", res["boundaries"])
        hits, n = fsaudit.scan_tree([outdir], needle)
        ctx.count("files_scanned_at_exit", n)
        for h in hits:
            seen.setdefault(key_location(h), ("exit", "", "", h))
        for mech, (k, event, path, h) in seen.items():
            ctx.violation(mech, f"run {sig}: the API key is on disk in '{h}' at write boundary {k} ({event} {path})", small)
        if res["exc"] is not None:
            ctx.violation(classify_exc(run, res["exc"]), f"run {sig}: {type(res['exc']).__name__}: {str(res['exc'])[:220]}", small)
        else:
            check_artifacts(ctx, run, outdir, res, small, sig)
    finally:
        shutil.rmtree(outdir, ignore_errors=True)
        for f in (outdir + "_supplied.yaml",):
            if os.path.exists(f):
                os.remove(f)
    ctx.tick(sig if res["boundaries"] >= 5 else None, sample={"run": run, "write_boundaries": res["boundaries"]} if ctx.evaluations < 4 else None)


def check_artifacts(ctx, run, outdir, res, small, sig):
    from omegaconf import OmegaConf
    from sleap_nn.config.training_job_config import verify_training_cfg
    from vf.props.c20 import diff, norm

    ctx.count("artifact_checks")
    init_p, train_p = os.path.join(outdir, "initial_config.yaml"), os.path.join(outdir, "training_config.yaml")
    for p in (init_p, train_p):
        if not os.path.exists(p):
            ctx.violation("artifact-missing", f"run {sig}: {os.path.basename(p)} was not written", small)
            return
    supplied = norm(blank(OmegaConf.to_container(verify_training_cfg(res["cfg"]), resolve=True)))
    got_init = norm(blank(OmegaConf.to_container(OmegaConf.load(init_p), resolve=True)))
    d = diff(got_init, supplied)
    if d:
        ctx.violation("initial-config-differs", f"run {sig}: initial_config.yaml differs from the supplied configuration: {d[:3]}", small)
    used = norm(blank(OmegaConf.to_container(res["trainer"].config, resolve=True)))
    got_train = norm(blank(OmegaConf.to_container(OmegaConf.load(train_p), resolve=True)))
    d = diff(got_train, used)
    if d:
        ctx.violation("training-config-differs", f"run {sig}: training_config.yaml differs from the configuration actually used: {d[:3]}", small)
    top_k, last = run.get("ckpt") or [1, True]
    want = ("best.ckpt" if top_k != 0 else "last.ckpt") if (top_k != 0 or last) else None  # save_top_k=0 keeps no 'best' model; save_last still writes last.ckpt
    if run["save_ckpt"] and want and not os.path.exists(os.path.join(outdir, want)):
        ctx.violation("checkpoint-missing", f"run {sig}: checkpointing is on (save_top_k={top_k}, save_last={last}) but {want} does not exist; checkpoints present: {sorted(f for f in os.listdir(outdir) if f.endswith('.ckpt'))}", small)
    if run["save_ckpt"] and want:
        import torch

        try:
            ck = torch.load(os.path.join(outdir, want), map_location="cpu", weights_only=False)
            ctx.count("checkpoints_loaded")
            if "state_dict" not in ck:
                ctx.violation("checkpoint-unloadable", f"run {sig}: {want} holds no state_dict", small)
        except FileNotFoundError:
            pass
        except Exception as e:
            ctx.violation("checkpoint-unloadable", f"run {sig}: {want} cannot be loaded: {type(e).__name__}: {str(e)[:120]}", small)
    if not run["save_ckpt"] and any(f.endswith(".ckpt") for f in os.listdir(outdir)):
        ctx.violation("checkpoint-unexpected", f"run {sig}: checkpointing is off but a checkpoint was written", small)
    if run["fw"] == "torch_dataset_np_chunks" and run["delete_chunks"]:
        left = [os.path.join(dp, f) for sub in ("train_chunks", "val_chunks") for dp, _, fn in os.walk(os.path.join(outdir, "chunks", sub)) for f in fn]
        if left:
            ctx.violation("chunks-not-deleted", f"run {sig}: delete_chunks_after_training is set but {len(left)} chunk files remain", small)
    if run["fw"] == "torch_dataset_np_chunks" and not run["delete_chunks"]:
        if not any(f.endswith(".npz") for dp, _, fn in os.walk(os.path.join(outdir, "chunks")) for f in fn):
            ctx.violation("chunks-missing", f"run {sig}: chunk deletion is off but no chunk files were kept", small)


def check_kill(ctx, case, run, outdir, small):
    """Kill a child training process at the k-th write boundary for every k and scan from the parent."""
    from vf import fsaudit, synth

    needle = KEY.encode()
    sig = tuple(run.values())
    spec = os.path.join(synth.workdir("C19"), f"kill{case['i']}.json")
    lp = labels_file(single=run["model"] == "single_instance")
    k, total, n_kills = 1, None, 0
    while True:
        shutil.rmtree(outdir, ignore_errors=True)
        json.dump({"run": run, "outdir": outdir, "labels": lp, "kill_at": k}, open(spec, "w"))
        try:
            p = subprocess.run([sys.executable, "-m", "vf.props.c19", spec], capture_output=True, text=True, timeout=300)
        except subprocess.TimeoutExpired:
            ctx.note_inconclusive(f"kill run {sig} at boundary {k} hit the watchdog")
            break
        if p.returncode != 77:
            total = k - 1
            break
        n_kills += 1
        ctx.count("kill_points")
        hits, n = fsaudit.scan_tree([outdir], needle)
        ctx.count("files_scanned_after_kill", n)
        for h in hits:
            ctx.violation(key_location(h), f"run {sig}: process killed at write boundary {k}: the API key is on disk in '{h}'", small)
        k += 1
        if k > 80:
            break
    shutil.rmtree(outdir, ignore_errors=True)
    for f in (spec, outdir + "_supplied.yaml"):
        if os.path.exists(f):
            os.remove(f)
    ctx.tick(("kill",) + sig if n_kills >= 5 else None, sample={"kill_run": run, "kill_points": n_kills} if ctx.evaluations < 6 else None)


KEY_BU_REUSE = "bottomup-chunk-reuse-needs-the-labels"


def check_reuse(ctx, case, run, outdir, small):
    """Train once keeping the chunk files, then train again with use_existing_chunks=True over them."""
    from sleap_nn.training.model_trainer import ModelTrainer
    from vf import fsaudit

    sig = (run["model"], run["form"], "reuse-chunks")
    try:
        first = execute(run, outdir)
        if first["exc"] is not None:
            ctx.violation(classify_exc(run, first["exc"]), f"run {sig} (first training): {type(first['exc']).__name__}: {str(first['exc'])[:200]}", small)
            return
        cfg = make_config(run, outdir)
        cfg.data_config.use_existing_chunks = True
        ctx.count("reuse_runs")
        try:
            with fsaudit.Watch([outdir]) as w:
                trainer = ModelTrainer(cfg)
                trainer.train()
            ctx.count("write_boundaries", w.count)
        except Exception as e:
            import traceback

            fr = [f for f in traceback.extract_tb(e.__traceback__) if "/sleap_nn/" in f.filename]
            where = fr[-1].name if fr else "?"
            key = f"chunk-reuse-raises:{type(e).__name__}@{where}"
            if run["model"] == "bottomup" and isinstance(e, AttributeError) and "skeletons" in str(e):
                key = KEY_BU_REUSE
            elif isinstance(e, TypeError) and ("NoneType" in str(e)):
                key = "chunk-reuse-part-names-or-crop-size-none"
            ctx.violation(key, f"run {sig}: the second training (use_existing_chunks=True) raised {type(e).__name__}: {str(e)[:160]} (in {where})", small)
            return
        hits, n = fsaudit.scan_tree([outdir], KEY.encode())
        ctx.count("files_scanned_at_exit", n)
        for h in hits:
            ctx.violation(key_location(h), f"run {sig}: the API key is on disk in '{h}'", small)
        for want in ("initial_config.yaml", "training_config.yaml", "best.ckpt"):
            if not os.path.exists(os.path.join(outdir, want)):
                ctx.violation("artifact-missing", f"run {sig}: {want} is missing after the second training", small)
    finally:
        shutil.rmtree(outdir, ignore_errors=True)
        if os.path.exists(outdir + "_supplied.yaml"):
            os.remove(outdir + "_supplied.yaml")
        ctx.tick(("reuse",) + sig)


def check_cwd(ctx, case, run, small):
    """Training in a child process whose working directory is a fresh scratch folder; the parent inspects that folder afterwards."""
    from vf import fsaudit, synth

    mode = case["mode"]
    base = os.path.join(synth.workdir("C19"), f"cwd{case['i']}")
    shutil.rmtree(base, ignore_errors=True)
    cwd = os.path.join(base, "work")
    os.makedirs(cwd)
    spec = os.path.join(base, "spec.json")
    lp = labels_file(single=run["model"] == "single_instance")
    json.dump({"run": run, "outdir": None, "labels": lp, "kill_at": None, "cwd": cwd, "low_memory": mode == "low-memory"}, open(spec, "w"))
    sig = (run["model"], run["form"], mode)
    try:
        p = subprocess.run([sys.executable, "-m", "vf.props.c19", spec], capture_output=True, text=True, timeout=600)
    except subprocess.TimeoutExpired:
        ctx.note_inconclusive(f"cwd run {sig} hit the watchdog")
        shutil.rmtree(base, ignore_errors=True)
        return
    ctx.count("cwd_runs")
    try:
        if p.returncode != 0:
            tail = (p.stderr or p.stdout).strip().splitlines()[-1:] or [""]
            ctx.violation(f"training-raises-in-default-dir:{mode}", f"run {sig} (working directory = output directory): child exited {p.returncode}: {tail[0][:200]}", small)
            return
        files = [os.path.relpath(os.path.join(dp, f), cwd) for dp, _, fn in os.walk(cwd) for f in fn]
        hits, n = fsaudit.scan_tree([cwd], KEY.encode())
        ctx.count("files_scanned_at_exit", n)
        for h in hits:
            ctx.violation(key_location(h), f"run {sig}: the API key is on disk in '{h}'", small)
        for want in ("initial_config.yaml", "training_config.yaml", "best.ckpt"):
            if want not in files:
                ctx.violation("artifact-missing-in-default-dir", f"run {sig}: save_ckpt_path=None (output directory '.'): {want} is not in the output directory; files: {sorted(files)[:12]}", small)
        left = [f for f in files if f.endswith(".npz")]
        if left:
            ctx.violation("chunks-not-deleted", f"run {sig}: delete_chunks_after_training is set but {len(left)} chunk files remain under the working directory ({left[:3]})", small)
        if mode == "low-memory" and "FALLBACK-TAKEN" not in p.stdout:
            ctx.note_inconclusive(f"cwd run {sig}: the low-memory fallback to chunk files was not taken")
    finally:
        shutil.rmtree(base, ignore_errors=True)
    ctx.tick(("cwd",) + sig)


def finalize(ctx):
    ctx.require("runs", 2) if ctx.tier == "quick" else None
    ctx.require("write_boundaries", 10) if ctx.counters.get("runs") else None


def _child_main(spec_path):
    from vf import compat

    compat.install()
    spec = json.load(open(spec_path))
    _S["labels_override"] = spec["labels"]
    if spec.get("cwd"):
        os.chdir(spec["cwd"])
    if spec.get("low_memory"):  # the host has no memory to spare when the data loaders are created: the in-memory framework falls back to chunk files
        import types

        from sleap_nn.training import model_trainer as mt

        real = mt.psutil.virtual_memory

        def no_memory():
            vm = real()
            return types.SimpleNamespace(**{k: getattr(vm, k) for k in vm._fields if k != "available"}, available=0)

        mt.psutil = types.SimpleNamespace(**{k: getattr(mt.psutil, k) for k in dir(mt.psutil) if not k.startswith("__")})
        mt.psutil.virtual_memory = no_memory
    res = execute(spec["run"], spec["outdir"], kill_at=spec["kill_at"])
    if spec.get("low_memory") and res["trainer"] is not None and "np_chunks" in str(getattr(res["trainer"], "data_pipeline_fw", "")):
        print("FALLBACK-TAKEN")
    if res["exc"] is not None:
        import traceback

        traceback.print_exception(res["exc"])
    sys.exit(0 if res["exc"] is None else 3)


LEVEL_TEXT = ("Real ModelTrainer construction + 1-step training runs execute under an audit-hook monitor that sees every file-write boundary under the output directories; at each "
              "boundary and at exit every file (and zip member) is scanned for the key bytes, artifacts are compared with the supplied / used configuration, and in the thorough tier "
              "a child process is killed at the k-th boundary for every k and the tree is scanned from the parent. The crash points are enumerated as observed, not modelled.")
LEVEL_NOTE = "Trusted: sys.addaudithook coverage of CPython-level file operations; writes by the wandb service process are only seen by the scans; litdata framework not covered."
TECHNIQUE = "runtime monitoring: audit-hook write-boundary monitor + tree scanner (crash-point enumeration by kill-at-boundary in the thorough tier)"

if __name__ == "__main__":
    _child_main(sys.argv[1])
