"""Shared tracker driver for C09 / C10: build a fresh real Tracker, push a history of frames
through Tracker.track and record, per frame, the identities of inputs and outputs."""
import itertools

import numpy as np

from vf.core import unjson_array

CANDS = ["fixed_window", "local_queues"]
MATCH = ["hungarian", "greedy"]
FEATS = [("keypoints", "oks"), ("centroids", "euclidean_dist"), ("bboxes", "iou"), ("keypoints", "euclidean_dist")]
REDUCE = ["mean", "max"]


def all_configs(windows=(1, 2, 3, 5), thresholds=(0.0, 0.5)):
    for cand, match, (feat, score), red, w, thr in itertools.product(CANDS, MATCH, FEATS, REDUCE, windows, thresholds):
        yield {"candidates_method": cand, "track_matching_method": match, "features": feat, "scoring_method": score,
               "scoring_reduction": red, "window_size": int(w), "instance_score_threshold": float(thr)}


def cfg_sig(cfg):
    return (cfg["candidates_method"][:5], cfg["track_matching_method"][:4], cfg["features"][:4] + "+" + cfg["scoring_method"][:3], cfg["scoring_reduction"], cfg["window_size"], cfg["instance_score_threshold"])


_SK = {}


def skeleton(n):
    from vf import synth

    if n not in _SK:
        _SK[n] = synth.skeleton(n)
    return _SK[n]


def run_history(cfg, frames, container=list, frame_index=None, extra_cfg=None):
    """frames: list of lists of {"id", "pts", "score"}. Returns (records, exception or None).

    records[f] = {"in": [(obj id, animal id, score)], "out": [(obj id, track name)], "exc": str|None}
    """
    import sleap_io as sio
    from sleap_nn.tracking.tracker import Tracker
    from vf import synth

    tracker = Tracker.from_config(**dict(cfg, **(extra_cfg or {})))
    records = []
    for f, dets in enumerate(frames):
        objs = []
        for d in dets:
            pts = unjson_array(d["pts"])
            o = synth.pred_instance(pts, skeleton(len(pts)), score=d["score"])
            objs.append(o)
        rec = {"in": [(id(o), d["id"], d["score"]) for o, d in zip(objs, dets)], "out": None, "exc": None, "objs": objs,
               "n_tracks_before": len(tracker.candidate.current_tracks)}
        try:
            with np.errstate(all="ignore"):
                out = tracker.track(container(objs), f if frame_index is None else frame_index(f))  # the detections of a frame as a list (documented) or another sequence type
            rec["out"] = [(id(o), (o.track.name if o.track is not None else None)) for o in out]
        except Exception as e:  # the property demands totality: record and stop this history
            import traceback

            tb = traceback.extract_tb(e.__traceback__)
            fr = [x for x in tb if "/sleap_nn/" in x.filename]
            rec["exc"] = {"type": type(e).__name__, "msg": str(e)[:200], "where": fr[-1].name if fr else "?"}
            records.append(rec)
            return records, rec["exc"], tracker
        records.append(rec)
    return records, None, tracker
