"""C11 — datasets never alter or invent labels; the same index gives the same sample.

(i) ambient purity probes (argument snapshots before/after) on every functional API while the
datasets are built and read; (ii) history checker over random __getitem__ sequences."""
import os

import numpy as np

LEVEL = "exploration"
RULE = ("seeded label sets (1-4 frames x 0-3 user animals x 3-4 nodes x NaN patterns incl. missing anchor, all-NaN (empty) instances, predicted instances next to user ones, "
        "empty frames) x dataset class {single, bottom-up, centroid, centred-instance} x anchor {None, each node} x storage {in-memory, npz chunks} x random read sequences "
        "(<= 30 reads with repeats and reversals) interleaved with functional-API calls on the returned tensors; plus direct purity calls of the functional API. "
        "non-trivial = label set with >= 1 missing node and a read sequence revisiting an index; distinct by (class, anchor, storage, NaN/emptiness pattern, sequence)")
ASSUMPTIONS = ["augmentation off for the determinism / label-equality checks (scale 1, no size matching, so sample keypoints must equal the labels exactly)",
               "frames that contain user instances are filtered to them (user_instances_only=True); frames with only predicted instances are not generated",
               "purity is asserted for tensor / ndarray arguments (and one level into dict examples)"]
SHARDS = {"quick": 8, "thorough": 16}
N = {"quick": 480, "thorough": 120000}
BUDGET = {"quick": 110, "thorough": 600}
TIMEOUT = {"quick": 700, "thorough": 3000}
SELF_SHARDED = True
PURE = [("sleap_nn.data.instance_centroids", "generate_centroids"), ("sleap_nn.data.instance_cropping", "generate_crops"), ("sleap_nn.data.instance_cropping", "make_centered_bboxes"),
        ("sleap_nn.data.resizing", "apply_sizematcher"), ("sleap_nn.data.resizing", "apply_resizer"), ("sleap_nn.data.resizing", "apply_pad_to_stride"),
        ("sleap_nn.data.normalization", "apply_normalization"), ("sleap_nn.data.augmentation", "apply_intensity_augmentation"), ("sleap_nn.data.augmentation", "apply_geometric_augmentation"),
        ("sleap_nn.data.confidence_maps", "generate_confmaps"), ("sleap_nn.data.confidence_maps", "generate_multiconfmaps"), ("sleap_nn.data.edge_maps", "generate_pafs")]
_S = {}


def setup(ctx):
    import importlib
    from vf import instrument, synth

    for m, _ in PURE:
        importlib.import_module(m)
    importlib.import_module("sleap_nn.data.custom_datasets")
    P = instrument.Probes()
    for m, f in PURE:
        P.wrap_purity(m, f)
    _S["probes"] = P
    rng = np.random.default_rng(5)
    import sleap_io as sio

    vids = []
    for k, (H, W) in enumerate([(64, 80), (72, 64)]):
        p = synth.write_h5_video(os.path.join(synth.workdir("C11"), f"v{k}.h5"), rng.integers(0, 255, (14, H, W, 1), dtype=np.uint8))
        vids.append(sio.load_video(p))
    _S["vids"] = vids


def gen_case(ctx, i):
    r = ctx.rng(11, i)
    n_nodes = int(r.integers(3, 5))
    F = int(r.integers(1, 5))
    if i % 9 == 5:
        F = int(r.integers(11, 15))  # more than ten samples: chunk files sample_10.. exist (re-opened chunk folders are indexed by file name)
    cls = ["single", "bottomup", "centroid", "centered"][i % 4]
    frames = []
    vid0 = int(r.integers(0, 2)) if cls != "single" else 0
    Hv, Wv = [(64, 80), (72, 64)][vid0]
    for f in range(F):
        n_an = 1 if cls == "single" else int(r.integers(0, 4))
        if cls == "single" and r.random() < 0.15:
            n_an = 0
        animals = []
        for a in range(n_an):
            c = np.array([r.uniform(18, 46), r.uniform(18, 46)])
            p = c + r.uniform(-12, 12, (n_nodes, 2))
            kind = str(r.choice(["full", "full", "some", "anchor0", "empty", "band"], p=[0.22, 0.22, 0.2, 0.13, 0.13, 0.1]))
            if kind == "band":  # every node within the last pixels of the right / bottom border, or on row/column 0 (still inside the image)
                side = int(r.integers(0, 3))
                if side == 0:
                    p = np.stack([r.uniform(Wv - 3.5, Wv - 0.5, n_nodes), r.uniform(12, Hv - 12, n_nodes)], -1)
                elif side == 1:
                    p = np.stack([r.uniform(12, Wv - 12, n_nodes), r.uniform(Hv - 3.5, Hv - 0.5, n_nodes)], -1)
                else:
                    p = np.stack([np.zeros(n_nodes), r.uniform(12, Hv - 12, n_nodes)], -1)
            elif kind == "some":
                m = r.random(n_nodes) < 0.4
                if m.all():
                    m[1] = False
                p[m] = np.nan
            elif kind == "anchor0":
                p[0] = np.nan
            elif kind == "empty":
                p[:] = np.nan
            animals.append({"pts": np.round(p * 4) / 4, "pred": False})
        if animals and any(not np.isnan(a["pts"]).all() for a in animals) and r.random() < 0.3 and cls != "single":
            animals.insert(int(r.integers(0, len(animals) + 1)), {"pts": np.round(r.uniform(10, 50, (n_nodes, 2))), "pred": True})
        frames.append({"video": vid0, "frame_idx": f, "animals": animals})  # one video size per label set (no size matching in this check)
    anchor = [None] + list(range(n_nodes))
    seq = [int(x) for x in r.integers(0, 50, int(r.integers(3, 31)))]
    return {"i": i, "cls": cls, "n_nodes": n_nodes, "frames": frames, "anchor": anchor[int(r.integers(0, len(anchor)))], "np_chunks": bool(r.random() < 0.4) or F > 4,
            "hidden_xy": bool(r.random() < 0.3),
            "seq": seq, "seed": int(r.integers(0, 2 ** 31)), "aug_pass": bool(r.random() < 0.25)}


def directed(ctx):
    # DESIGN §4-C11 witness: anchor node missing in the labels
    p = np.array([[np.nan, np.nan], [30.0, 30.0], [40.0, 44.0]])
    fr = [{"video": 0, "frame_idx": 0, "animals": [{"pts": p, "pred": False}, {"pts": p + 5, "pred": False}]}]
    for cls in ("centered", "centroid"):
        yield {"i": -1, "cls": cls, "n_nodes": 3, "frames": fr, "anchor": 0, "np_chunks": False, "seq": [0, 1, 0, 0, 1], "seed": 1, "aug_pass": False}


def cases(ctx):
    for i in range(N[ctx.tier]):
        if i % ctx.nshards == ctx.shard:
            yield gen_case(ctx, i)


def arr(x, n):
    from vf.core import unjson_array

    a = x if isinstance(x, np.ndarray) else unjson_array(x)
    return a.reshape(n, 2)


def same(a, b):
    import torch

    if isinstance(a, torch.Tensor) and isinstance(b, torch.Tensor):
        if a.shape != b.shape:
            return False
        if a.is_floating_point():
            return bool(torch.equal(torch.isnan(a), torch.isnan(b)) and torch.equal(torch.nan_to_num(a, nan=0.0), torch.nan_to_num(b, nan=0.0)))
        return bool(torch.equal(a, b))
    return a == b if not isinstance(a, np.ndarray) else np.array_equal(a, b)


def build_dataset(case, labels, aug=False, reuse=None):
    from omegaconf import OmegaConf
    from sleap_nn.data import custom_datasets as cd
    from vf import synth

    data_cfg = OmegaConf.create({"user_instances_only": True, "preprocessing": {"is_rgb": False},
                                 "augmentation_config": {"intensity": {"uniform_noise_p": 1.0, "contrast_p": 1.0}, "geometric": {"rotation": 20.0, "scale": (0.9, 1.1), "translate_width": 0.05, "translate_height": 0.05, "affine_p": 1.0}}})
    head = OmegaConf.create({"sigma": 1.5, "output_stride": 2, "anchor_part": case["anchor"], "part_names": None})
    chunks = reuse
    if case["np_chunks"] and not reuse:
        import tempfile

        chunks = tempfile.mkdtemp(prefix="chunks-", dir=synth.workdir("C11"))
    common = dict(labels=labels, data_config=data_cfg, max_stride=8, scale=1.0, apply_aug=aug, max_hw=(None, None), np_chunks=case["np_chunks"], np_chunks_path=chunks)
    if reuse:
        common["use_existing_chunks"] = True
    cls = case["cls"]
    if cls == "single":
        return cd.SingleInstanceDataset(confmap_head_config=head, **common), chunks
    if cls == "bottomup":
        return cd.BottomUpDataset(confmap_head_config=head, pafs_head_config=OmegaConf.create({"sigma": 4.0, "output_stride": 4}), **common), chunks
    if cls == "centroid":
        return cd.CentroidDataset(confmap_head_config=head, **common), chunks
    return cd.CenteredInstanceDataset(crop_hw=(32, 32), confmap_head_config=head, **common), chunks


def check(ctx, case):
    import shutil
    import torch
    from sleap_nn.data.instance_centroids import generate_centroids
    from sleap_nn.data.instance_cropping import find_instance_crop_size
    from sleap_nn.data.providers import process_lf
    from vf import synth

    n = case["n_nodes"]
    cls = case["cls"]
    sk = synth.skeleton(n)
    P = _S["probes"]
    P.mutations.clear()
    small = case
    frames_spec = [(_S["vids"][fr["video"]], fr["frame_idx"], [arr(a["pts"], n) for a in fr["animals"]], [a["pred"] for a in fr["animals"]]) for fr in case["frames"]]
    labels = synth.labels_from_poses(frames_spec, sk)
    if case.get("hidden_xy"):
        # a node toggled off in a labelling GUI keeps its stored coordinates: visible=False with finite xy is a *missing* keypoint
        rh = np.random.default_rng(case["seed"] + 5)
        for lf in labels:
            for inst in lf.instances:
                miss = np.isnan(inst.points["xy"]).any(1)
                if miss.any() and not miss.all():
                    inst.points["xy"][miss] = rh.uniform(12, 50, (int(miss.sum()), 2))
                    inst.points["visible"][miss] = False
                    ctx.count("hidden_finite_points", int(miss.sum()))
    label_snapshot = [[inst.numpy().copy() for inst in lf.instances] for lf in labels]
    # expected samples from the labels alone
    exp = []  # list of (frame index in labels, [poses]) or (frame, inst idx, pose)
    for fi, fr in enumerate(case["frames"]):
        users = [arr(a["pts"], n) for a in fr["animals"] if not a["pred"]]
        use = users if users else [arr(a["pts"], n) for a in fr["animals"]]
        nonempty = [p for p in use if not np.isnan(p).all()]
        if cls == "centered":
            for p in use:
                if not np.isnan(p).all():
                    exp.append((fi, p))
        elif nonempty:
            exp.append((fi, nonempty))
    if not any(any(not np.isnan(arr(a["pts"], n)).all() for a in fr["animals"]) for fr in case["frames"]):
        ctx.tick()
        return  # nothing labelled at all: dataset construction on an empty label set is outside the quantifier
    try:
        ds, chunks = build_dataset(case, labels)
    except Exception as e:
        import traceback

        fr_ = [f for f in traceback.extract_tb(e.__traceback__) if "/sleap_nn/" in f.filename]
        ctx.violation(f"dataset-construction-raises:{type(e).__name__}@{fr_[-1].name if fr_ else '?'}", f"{cls} dataset construction raised {type(e).__name__}: {str(e)[:160]}", small)
        ctx.tick()
        return
    ctx.count("datasets:" + cls)
    if len(ds) != len(exp):
        ctx.violation("dataset-length", f"{cls}: len(dataset)={len(ds)} but the labels hold {len(exp)} non-empty {'instances' if cls == 'centered' else 'frames'}", small)
    first = {}
    revisits = 0
    r = np.random.default_rng(case["seed"])
    for step, raw in enumerate(case["seq"]):
        if len(ds) == 0:
            break
        idx = raw % len(ds)
        s = ds[idx]
        ctx.count("reads")
        if idx in first:
            revisits += 1
            for k, v in first[idx].items():
                if k not in s or not same(v, s[k]):
                    ctx.violation("read-not-repeatable", f"{cls} (np_chunks={case['np_chunks']}): key '{k}' of index {idx} differs between reads (step {step})", small)
                    break
        else:
            first[idx] = {k: (v.clone() if isinstance(v, torch.Tensor) else v) for k, v in s.items()}
            if idx < len(exp):
                check_sample(ctx, case, small, s, exp[idx], idx)
        # interleaved functional-API calls on what the dataset handed out
        if r.random() < 0.5:
            if "instances" in s:
                generate_centroids(s["instances"], anchor_ind=case["anchor"])
            elif "instance" in s:
                generate_centroids(s["instance"], anchor_ind=case["anchor"])
    # a second dataset object over the chunk folder the first one wrote must return the same sample for every index
    if chunks and len(ds):
        try:
            ds_re, _ = build_dataset(case, labels, reuse=chunks)
            ctx.count("reopened_chunk_datasets")
            if len(ds_re) != len(ds):
                ctx.violation("reopened-chunks-length", f"{cls}: re-opened chunk dataset has {len(ds_re)} samples, the dataset that wrote the chunks {len(ds)}", small)
            for idx in range(min(len(ds), len(ds_re))):
                a_, b_ = ds[idx], ds_re[idx]
                bad_keys = [k for k in a_ if k not in b_ or not same(a_[k], b_[k])]
                if bad_keys:
                    ctx.violation("reopened-chunks-differ", f"{cls}: index {idx} of a dataset re-opened with use_existing_chunks differs from the one that wrote the chunks in {bad_keys[:3]} ({len(ds)} samples)", small)
                    break
        except Exception as e:
            import traceback

            fr_ = [f for f in traceback.extract_tb(e.__traceback__) if "/sleap_nn/" in f.filename]
            ctx.violation(f"reopened-chunks-raises:{type(e).__name__}@{fr_[-1].name if fr_ else '?'}", f"{cls}: re-opening the chunk folder raised {type(e).__name__}: {str(e)[:160]}", small)
    # direct purity calls not reached by the datasets
    try:
        find_instance_crop_size(labels, padding=4, maximum_stride=8, input_scaling=0.5)
        for lf in labels:
            if any(not inst.is_empty for inst in lf.instances):
                process_lf(lf, 0, max_instances=4, user_instances_only=True)
        ctx.count("direct_label_calls")
    except Exception:
        pass
    if case["aug_pass"] and len(ds):
        try:
            ds2, chunks2 = build_dataset(dict(case, np_chunks=False), labels, aug=True)
            torch.manual_seed(case["seed"])
            for idx in range(len(ds2)):
                ds2[idx]
            ctx.count("augmented_reads", len(ds2))
        except Exception as e:
            ctx.count("augmented_pass_errors")
    # labels untouched (coordinates of every instance that is still attached)
    k = 0
    for lf, snap in zip(labels, label_snapshot):
        cur = {id(i): i for i in lf.instances}
        for inst in lf.instances:
            match = [s_ for s_ in snap if s_.shape == inst.numpy().shape and np.array_equal(np.nan_to_num(s_, nan=-7.0), np.nan_to_num(inst.numpy(), nan=-7.0))]
            if not match:
                ctx.violation("labels-mutated", f"coordinates of a labelled instance changed after building/reading the {cls} dataset", small)
                k += 1
                break
    for fname, key in P.mutations[:3]:
        mech = "generate_centroids-writes-through-anchor-view" if fname == "generate_centroids" else f"argument-mutated:{fname}"
        ctx.violation(mech, f"{fname} modified its input argument {key} (observed while building/reading the {cls} dataset, anchor={case['anchor']})", small)
    ctx.count("probe_evaluations", sum(P.counts.values()))
    P.counts.clear()
    if chunks:
        shutil.rmtree(chunks, ignore_errors=True)
    has_missing = any(np.isnan(arr(a["pts"], n)).any() for fr in case["frames"] for a in fr["animals"])
    sig = (cls, case["anchor"], case["np_chunks"], tuple(tuple((np.isnan(arr(a["pts"], n)).any(-1) * 1).tolist() + [a["pred"]]) for fr in case["frames"] for a in fr["animals"]), tuple(case["seq"][:6])) if (has_missing and revisits) else None
    ctx.tick(sig, sample={"cls": cls, "anchor": case["anchor"], "np_chunks": case["np_chunks"], "seq": case["seq"], "frames": case["frames"][:1]} if ctx.evaluations < 3 else None)


def check_sample(ctx, case, small, s, expected, idx):
    n, cls = case["n_nodes"], case["cls"]
    if cls == "centered":
        fi, pose = expected
        a_ = case["anchor"]
        true_c = pose[a_] if (a_ is not None and not np.isnan(pose[a_]).any()) else (np.nanmax(pose, 0) + np.nanmin(pose, 0)) / 2
        kp = s["instance"].numpy().reshape(n, 2) - s["centroid"].numpy().reshape(2) + true_c  # crop coordinates -> frame coordinates through the centroid
        cm = s["confidence_maps"].numpy().reshape(n, *s["confidence_maps"].shape[-2:])
        exp_kp = pose[None]
        got_kp = kp[None]
    else:
        fi, poses = expected
        inst = s["instances"].numpy().reshape(-1, n, 2)
        got_kp, pad = inst[: len(poses)], inst[len(poses):]
        exp_kp = np.stack(poses)
        if not np.isnan(pad).all():
            ctx.violation("invented-instance", f"{cls}: rows beyond the labelled instances are not NaN padding", small)
        if int(s["num_instances"]) != len(poses):
            ctx.violation("num-instances", f"{cls}: num_instances={int(s['num_instances'])} but the frame has {len(poses)} non-empty user instances", small)
        cm = None
        if cls == "single":
            cm = s["confidence_maps"].numpy().reshape(n, *s["confidence_maps"].shape[-2:])
        elif cls == "bottomup":
            cm = s["confidence_maps"].numpy().reshape(n, *s["confidence_maps"].shape[-2:])
    ctx.count("samples_checked")
    miss_exp, miss_got = np.isnan(exp_kp).any(-1), np.isnan(got_kp).any(-1)
    if got_kp.shape != exp_kp.shape or (miss_exp != miss_got).any():
        key = "missing-keypoint-invented" if got_kp.shape == exp_kp.shape and (miss_exp & ~miss_got).any() else "keypoint-visibility-changed"
        ctx.violation(key, f"{cls} sample {idx}: visibility pattern {(~miss_got).astype(int).tolist()} differs from the labels {(~miss_exp).astype(int).tolist()}", small)
        return
    if np.nanmax(np.abs(np.nan_to_num(got_kp - exp_kp)), initial=0) > 1e-3:
        ctx.violation("keypoints-altered", f"{cls} sample {idx}: keypoints differ from the labels by {np.nanmax(np.abs(np.nan_to_num(got_kp - exp_kp))):.3g}", small)
    if cm is not None:
        node_visible = (~miss_exp).any(0)
        for k in range(n):
            ctx.count("channel_checks")
            if not node_visible[k] and np.any(cm[k] != 0):
                ctx.violation("missing-keypoint-has-confidence", f"{cls} sample {idx}: node {k} is missing in the labels but its confidence map peaks at {cm[k].max():.3f}", small)
            if node_visible[k] and cm[k].max() <= 0:
                ctx.violation("visible-keypoint-no-confidence", f"{cls} sample {idx}: node {k} is labelled but its confidence map is empty", small)


def finalize(ctx):
    if ctx.tier == "thorough" and ctx.shard == 0:  # ambient contracts while the repository's own pinned tests run
        from vf import ambient

        ambient.run_tests(ctx, "C11", ["tests/data/test_instance_centroids.py", "tests/data/test_instance_cropping.py", "tests/data/test_resizing.py", "tests/data/test_get_data_chunks.py"], ["purity:generate_centroids", "purity:apply_sizematcher"])
    ctx.require("reads", 30)
    ctx.require("samples_checked", 20)
    ctx.require("probe_evaluations", 100)
    ctx.require("channel_checks", 20)


LEVEL_TEXT = ("Synthetic label sets go through the four real Dataset classes (in-memory and npz storage); every functional API is wrapped by an argument-snapshot probe while the "
              "datasets are built and read (write-through detector), and a history checker compares all reads of an index, the visibility pattern, keypoints and confidence-map "
              "channels with the labels, and the dataset length with the number of non-empty instances. Exploration over seeded label sets and read sequences.")
LEVEL_NOTE = "Trusted: vf/instrument.py snapshots (clone + NaN-aware equality) and sleap-io label construction. Augmented reads are only watched by the purity probes."
TECHNIQUE = "runtime monitoring: ambient argument-immutability probes + history checker over __getitem__ sequences"
