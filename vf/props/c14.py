"""C14 — every valid model configuration yields outputs of the contracted shape; eval-mode
outputs are deterministic, history-independent and batch-independent."""
import copy
import itertools

import numpy as np

LEVEL = "exploration"
EXHAUSTIVE = {"quick": False, "thorough": True}
RULE = ("enumerated grid. UNet: max_stride{8,16,32} x stem_stride{None,2,4} x filters_rate{1.5,2} (filters 4; plus filters {5,6,7,10,11} at rate 1.5) x convs_per_block{1,2,3} x up_interpolate x middle_block x head "
        "{single, centroid, centered (stride 1,2,4,8), bottom-up (cms,paf) in {(2,4),(4,8),(2,2),(1,2),(4,2),(8,8)}} x input sizes k*max_stride (non-square); ConvNeXt "
        "(custom small arch and the real tiny preset) and Swin-T (tiny preset): stem_patch_stride{2,4} x head strides x up_interpolate x convs_per_block. Each configuration "
        "first goes through the repository's own normaliser TrainingJobConfig.check_output_strides (the validity cross-constraints). quick = a seeded slice of the grid, "
        "thorough = the whole grid. non-trivial = head stride != backbone output stride, or a stem, or bottom-up with two strides; distinct by the configuration tuple")
ASSUMPTIONS = ["valid = value domains of docs/config.md and the config classes + the cross-constraints of check_output_strides; pretrained-width encoders use filters_rate=2; "
               "heads with output_stride >= max_stride are outside the valid grid (no decoder level)",
               "input sides are multiples of max_stride; eval() mode; CPU, single thread",
               "tolerances: determinism / history 1e-6, batch independence 1e-4"]
SHARDS = {"quick": 8, "thorough": 16}
BUDGET = {"quick": 100, "thorough": 600}
TIMEOUT = {"quick": 600, "thorough": 3000}
SELF_SHARDED = True
N_QUICK = 420
HEAD_SINGLE = ["single_instance", "centroid", "centered_instance"]
BU_STRIDES = [(2, 4), (4, 8), (2, 2), (1, 2), (4, 2), (8, 8)]


def unet_grid():
    for ms, stem, fr, cpb, upi, mid in itertools.product([8, 16, 32], [None, 2, 4], [1.5, 2], [1, 2, 3], [True, False], [True, False]):
        heads = [(h, (s,)) for h in HEAD_SINGLE for s in (1, 2, 4, 8)] + [("bottomup", st) for st in BU_STRIDES]
        for h, st in heads:
            if max(st) >= ms:
                continue
            yield {"family": "unet", "max_stride": ms, "stem_stride": stem, "filters_rate": fr, "convs_per_block": cpb, "up_interpolate": upi, "middle_block": mid,
                   "head": h, "strides": list(st), "filters": 4, "in_channels": 1}
    # filter counts whose widths are truncated differently block by block under a fractional rate (int(f * 1.5**k) vs chained rounding)
    for ms, stem, upi, f in itertools.product([8, 16, 32], [None, 2], [True, False], [5, 6, 7, 10, 11]):
        heads = [(h, (s,)) for h in ("centroid", "single_instance") for s in (1, 2, 4, 8)] + [("bottomup", st) for st in BU_STRIDES]
        for h, st in heads:
            if max(st) >= ms:
                continue
            yield {"family": "unet", "max_stride": ms, "stem_stride": stem, "filters_rate": 1.5, "convs_per_block": 2, "up_interpolate": upi, "middle_block": True,
                   "head": h, "strides": list(st), "filters": f, "in_channels": 1}


def enc_grid():
    for fam, model_type in (("convnext", "custom"), ("convnext", "tiny"), ("swint", "tiny")):
        for stem, upi, cpb in itertools.product([2, 4], [True, False], [1, 2]):
            heads = [(h, (s,)) for h in HEAD_SINGLE for s in (1, 2, 4, 8)] + [("bottomup", st) for st in BU_STRIDES]
            for h, st in heads:
                ms = 8 * stem
                if max(st) >= ms:
                    continue
                yield {"family": fam, "model_type": model_type, "stem_patch_stride": stem, "max_stride": ms, "filters_rate": 2, "convs_per_block": cpb, "up_interpolate": upi,
                       "head": h, "strides": list(st), "in_channels": 1}


def all_configs():
    out = []
    for c in list(unet_grid()) + list(enc_grid()):
        out.append(c)
        if c["head"] == "bottomup" and c["strides"][0] != c["strides"][1] and (c["family"] != "unet" or (c["convs_per_block"] == 2 and c["middle_block"])):
            out.append(dict(c, pafs_first=True))
        # other convolution kernel sizes (even kernels need asymmetric "same" padding), 3-channel input
        if c["head"] in ("centroid", "bottomup") and c.get("filters", 4) == 4 and (c["family"] != "unet" or (c["convs_per_block"] == 2 and c["middle_block"] and c["filters_rate"] == 2)):
            k = [2, 4, 5, 1][len(out) % 4]
            out.append(dict(c, kernel_size=k, in_channels=3 if k in (4, 1) else 1))
    return out


def cases(ctx):
    grid = all_configs()
    if ctx.tier == "quick":
        r = ctx.rng(14, 0)
        def known_bad(c):
            return c["family"] == "unet" and (not c["middle_block"] or c["convs_per_block"] == 1)

        heavy = [i for i, c in enumerate(grid) if c["family"] != "unet" and c.get("model_type") == "tiny"]
        bad = [i for i, c in enumerate(grid) if known_bad(c)]
        light = [i for i in range(len(grid)) if i not in set(heavy) and i not in set(bad)]
        sel = list(r.permutation(light)[: N_QUICK - 70]) + list(r.permutation(heavy)[:40]) + list(r.permutation(bad)[:30])
        grid = [grid[i] for i in sorted(sel)]
    for i, c in enumerate(grid):
        if i % ctx.nshards == ctx.shard:
            yield dict(c, i=i)


def directed(ctx):
    yield {"i": -1, "family": "unet", "max_stride": 16, "stem_stride": None, "filters_rate": 1.5, "convs_per_block": 2, "up_interpolate": True, "middle_block": False,
           "head": "single_instance", "strides": [2], "filters": 4, "in_channels": 1}
    yield {"i": -2, "family": "unet", "max_stride": 16, "stem_stride": None, "filters_rate": 2, "convs_per_block": 1, "up_interpolate": True, "middle_block": True,
           "head": "centroid", "strides": [2], "filters": 4, "in_channels": 1}
    yield {"i": -3, "family": "convnext", "model_type": "custom", "stem_patch_stride": 2, "max_stride": 16, "filters_rate": 2, "convs_per_block": 2, "up_interpolate": True,
           "head": "centroid", "strides": [4], "in_channels": 1}


def make_config(case):
    from omegaconf import OmegaConf

    fam = case["family"]
    if fam == "unet":
        bb = {"in_channels": case["in_channels"], "kernel_size": case.get("kernel_size", 3), "filters": case["filters"], "filters_rate": case["filters_rate"], "max_stride": case["max_stride"],
              "stem_stride": case["stem_stride"], "middle_block": case["middle_block"], "up_interpolate": case["up_interpolate"], "stacks": 1,
              "convs_per_block": case["convs_per_block"], "output_stride": 1}
    elif fam == "convnext":
        bb = {"model_type": case["model_type"], "arch": {"depths": [1, 1, 2, 1], "channels": [8, 16, 32, 64]} if case["model_type"] == "custom" else None,
              "stem_patch_kernel": 4, "stem_patch_stride": case["stem_patch_stride"], "in_channels": case["in_channels"], "kernel_size": case.get("kernel_size", 3), "filters_rate": 2,
              "convs_per_block": case["convs_per_block"], "up_interpolate": case["up_interpolate"], "output_stride": 1, "max_stride": case["max_stride"]}
    else:
        bb = {"model_type": case["model_type"], "arch": None, "patch_size": [4, 4], "stem_patch_stride": case["stem_patch_stride"], "window_size": [7, 7],
              "in_channels": case["in_channels"], "kernel_size": case.get("kernel_size", 3), "filters_rate": 2, "convs_per_block": case["convs_per_block"], "up_interpolate": case["up_interpolate"],
              "output_stride": 1, "max_stride": case["max_stride"]}
    parts = ["a", "b", "c"]
    h = case["head"]
    if h == "bottomup":
        head = {"confmaps": {"part_names": parts, "sigma": 2.0, "output_stride": case["strides"][0], "loss_weight": 1.0},
                "pafs": {"edges": [["a", "b"], ["b", "c"]], "sigma": 4.0, "output_stride": case["strides"][1], "loss_weight": 1.0}}
        if case.get("pafs_first"):  # the mapping may list its two heads in either order (YAML files written by hand do)
            head = {"pafs": head["pafs"], "confmaps": head["confmaps"]}
    elif h == "centroid":
        head = {"confmaps": {"anchor_part": None, "sigma": 2.0, "output_stride": case["strides"][0]}}
    elif h == "centered_instance":
        head = {"confmaps": {"part_names": parts, "anchor_part": None, "sigma": 2.0, "output_stride": case["strides"][0]}}
    else:
        head = {"confmaps": {"part_names": parts, "sigma": 2.0, "output_stride": case["strides"][0]}}
    cfg = OmegaConf.create({"model_config": {"backbone_config": {"unet": None, "convnext": None, "swint": None}, "head_configs": {"single_instance": None, "centroid": None, "centered_instance": None, "bottomup": None}}})
    cfg.model_config.backbone_config[fam] = bb
    cfg.model_config.head_configs[h] = head
    return cfg


def expected_shapes(case, H, W):
    """Shapes of the training targets the data pipeline produces for this head (real target functions)."""
    import torch
    from sleap_nn.data.confidence_maps import generate_confmaps, generate_multiconfmaps
    from sleap_nn.data.edge_maps import generate_pafs

    h, st = case["head"], case["strides"]
    inst = torch.tensor([[[[3.0, 3.0], [5.0, 6.0], [7.0, 4.0]]]])
    if h in ("single_instance", "centered_instance"):
        return {{"single_instance": "SingleInstanceConfmapsHead", "centered_instance": "CenteredInstanceConfmapsHead"}[h]: tuple(generate_confmaps(inst, (H, W), 2.0, st[0]).shape[1:])}
    if h == "centroid":
        return {"CentroidConfmapsHead": tuple(generate_multiconfmaps(inst[:, :, 0], (H, W), 1, 2.0, st[0], is_centroids=True).shape[1:])}
    return {"MultiInstanceConfmapsHead": tuple(generate_multiconfmaps(inst, (H, W), 1, 2.0, st[0]).shape[1:]),
            "PartAffinityFieldsHead": tuple(generate_pafs(inst, (H, W), 4.0, st[1], torch.tensor([[0, 1], [1, 2]]), flatten_channels=True).shape)}


def classify(case, exc):
    if not (isinstance(exc, RuntimeError) and "channels" in str(exc)):
        return None
    if case["family"] == "unet" and not case["middle_block"]:
        return "unet-middle_block-false-channel-mismatch"
    if case["family"] == "unet" and case["convs_per_block"] == 1:
        return "unet-convs_per_block-1-channel-mismatch"
    if case["family"] == "unet" and case["filters_rate"] != int(case["filters_rate"]):
        return "fractional-filters-rate-head-width-mismatch"
    if case["family"] in ("convnext", "swint") and max(case["strides"]) > case["stem_patch_stride"]:
        return "encoder-backbone-head-stride-above-stem-stride"
    return None


def check(ctx, case):
    import torch
    from sleap_nn.architectures.model import Model
    from sleap_nn.config.training_job_config import TrainingJobConfig

    torch.manual_seed(1234)
    cfg = TrainingJobConfig.check_output_strides(make_config(case))
    fam, h = case["family"], case["head"]
    bb_cfg = cfg.model_config.backbone_config[fam]
    ms = int(bb_cfg.max_stride)
    small = dict(case)
    small["normalised_backbone"] = {"max_stride": ms, "output_stride": int(bb_cfg.output_stride)}
    nt_sig = (fam, case.get("model_type"), ms, case.get("stem_stride", case.get("stem_patch_stride")), case["filters_rate"], case.get("filters"), case["convs_per_block"], case["up_interpolate"],
              case.get("middle_block"), h, tuple(case["strides"]), bool(case.get("pafs_first")), case.get("kernel_size", 3), case["in_channels"])
    interesting = (len(set(case["strides"])) > 1) or case.get("stem_stride") or fam != "unet" or case["strides"][0] != int(bb_cfg.output_stride)
    sizes = [(ms * 2, ms * 3), (ms * 1, ms * 2), (ms * 3, ms * 1)]
    try:
        model = Model(backbone_type=fam, backbone_config=bb_cfg, head_configs=cfg.model_config.head_configs[h], input_expand_channels=case["in_channels"], model_type=h)
        model.eval()
        fresh = copy.deepcopy(model)
        shapes_log = []
        with torch.no_grad():
            x0 = torch.rand(2, case["in_channels"], *sizes[0])
            y0 = model(x0)
            ctx.count("models_built")
            for (H, W) in sizes:
                x = x0 if (H, W) == sizes[0] else torch.rand(1, case["in_channels"], H, W)
                y = y0 if (H, W) == sizes[0] else model(x)
                ctx.count("forward_calls")
                exp = expected_shapes(case, H, W)
                if set(y) != set(exp):
                    ctx.violation("head-outputs", f"outputs {sorted(y)} != heads {sorted(exp)}", small)
                    continue
                for name, shp in exp.items():
                    got = tuple(y[name].shape[1:])
                    shapes_log.append((name, (H, W), got))
                    if got != shp or y[name].shape[0] != x.shape[0]:
                        ctx.violation("output-shape", f"{name}: output {tuple(y[name].shape)} for input {(x.shape[0], H, W)} but the targets have shape {shp}", small)
                    if not torch.isfinite(y[name]).all():
                        ctx.violation("non-finite-output", f"{name}: NaN/Inf in the output", small)
            # history independence + determinism: same input after other sizes, and on a fresh copy of the same weights
            y0b = model(x0)
            y0f = fresh(x0)
            for name in y0:
                ctx.count("determinism_checks")
                if (y0[name] - y0b[name]).abs().max() > 1e-6:
                    ctx.violation("history-dependence", f"{name}: output for the same frame changed after calls with other input sizes (max diff {(y0[name] - y0b[name]).abs().max():.3g})", small)
                if (y0[name] - y0f[name]).abs().max() > 1e-6:
                    ctx.violation("history-dependence", f"{name}: used model and a fresh copy of the same weights disagree (max diff {(y0[name] - y0f[name]).abs().max():.3g})", small)
            # same shape, different content (rows swapped): outputs must swap with the rows
            yflip = model(x0.flip(0))
            for name in y0:
                if (y0[name].flip(0) - yflip[name]).abs().max() > 1e-4:
                    ctx.violation("batch-dependence", f"{name}: swapping the two frames of the batch does not swap the outputs (max diff {(y0[name].flip(0) - yflip[name]).abs().max():.3g})", small)
            # batch independence
            y1 = model(x0[1:2])
            for name in y0:
                if (y0[name][1:2] - y1[name]).abs().max() > 1e-4:
                    ctx.violation("batch-dependence", f"{name}: row 1 of the batch differs from the frame alone by {(y0[name][1:2] - y1[name]).abs().max():.3g}", small)
    except Exception as e:
        import traceback

        key = classify(case, e)
        fr = [f for f in traceback.extract_tb(e.__traceback__) if "/sleap_nn/" in f.filename]
        where = fr[-1].name if fr else "?"
        ctx.violation(key or f"exception:{type(e).__name__}@{where}", f"{fam}/{h} strides {case['strides']}: {type(e).__name__}: {str(e)[:160]} (in {where})", small)
        ctx.tick(nt_sig if interesting else None)
        return
    ctx.tick(nt_sig if interesting else None, sample={"config": small, "shapes": shapes_log[:4]} if ctx.evaluations < 3 else None)


def finalize(ctx):
    ctx.require("models_built", 10)
    ctx.require("forward_calls", 30)
    ctx.extra["grid_size"] = len(all_configs())


LEVEL_TEXT = ("Each configuration of an enumerated grid (after the repository's own stride normaliser) is built with the real Model and run on inputs of three sizes; output keys, "
              "channels and spatial sizes are compared with the shapes the real target generators produce, and the same frame is re-evaluated after other calls, on a fresh "
              "copy of the weights and alone vs inside a batch. quick samples the grid, thorough enumerates it.")
LEVEL_NOTE = "Trusted: the validity predicate (written in the module and in the evidence), torch CPU determinism with one thread."
TECHNIQUE = "runtime monitoring over an enumerated configuration grid with shape / determinism / batch-independence oracles"
