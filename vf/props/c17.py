"""C17 — edge order of every tree skeleton: complete and parent-before-child.

Enumerates all rooted labelled trees (Pruefer sequences x root) x all permutations of the
edge listing for small sizes and observes PAFScorer(...).sorted_edge_inds (+ toposort_edges),
then feeds one perfect match per edge through the real assign_connections_to_instances in
that order and demands a single instance holding every node."""
import itertools

import numpy as np

LEVEL = "exploration"
EXHAUSTIVE = {"quick": True, "thorough": True}
RULE = ("all rooted labelled trees on 2..5 nodes (quick) / 2..6 nodes (thorough) x all permutations of the edge list, plus 7-9-node trees with sampled "
        "permutations and shuffled node names (thorough); non-trivial = tree with >=3 nodes listed with a child edge before its parent edge; "
        "distinct by the exact (edge listing) tuple")
ASSUMPTIONS = ["skeleton is a tree given as (src name, dst name) edges directed away from the root"]
SHARDS = {"quick": 4, "thorough": 16}
BUDGET = {"quick": 200, "thorough": 600}
TIMEOUT = {"quick": 600, "thorough": 3000}
SELF_SHARDED = True
MIN_NONTRIVIAL = 50


def prufer_to_edges(seq, n):
    degree = [1] * n
    for v in seq:
        degree[v] += 1
    edges = []
    seq = list(seq)
    for v in seq:
        for u in range(n):
            if degree[u] == 1:
                edges.append((u, v))
                degree[u] -= 1
                degree[v] -= 1
                break
    u, w = [x for x in range(n) if degree[x] == 1]
    edges.append((u, w))
    return edges


def orient(edges, root, n):
    adj = {i: [] for i in range(n)}
    for a, b in edges:
        adj[a].append(b)
        adj[b].append(a)
    out, seen, stack = [], {root}, [root]
    while stack:
        v = stack.pop()
        for w in adj[v]:
            if w not in seen:
                seen.add(w)
                out.append((v, w))
                stack.append(w)
    return out


def all_rooted_trees(n):
    if n == 2:
        yield [(0, 1)]
        yield [(1, 0)]
        return
    for seq in itertools.product(range(n), repeat=n - 2):
        und = prufer_to_edges(seq, n)
        for root in range(n):
            yield orient(und, root, n)


def gen_listings(ctx):
    """Yield (n, listing, names) with a running index for sharding."""
    idx = 0
    max_exh = 5 if ctx.tier == "quick" else 6
    for n in range(2, max_exh + 1):
        for tree in all_rooted_trees(n):
            if n == 6:
                # shard on trees (each shard enumerates all 120 listings of its trees)
                idx += 1
                if idx % ctx.nshards != ctx.shard:
                    continue
                for perm in itertools.permutations(tree):
                    yield n, list(perm), None
            else:
                for perm in itertools.permutations(tree):
                    idx += 1
                    if idx % ctx.nshards == ctx.shard:
                        yield n, list(perm), None
    if ctx.tier == "thorough":
        r = ctx.rng(17, ctx.shard)
        for t in range(40000):
            n = 7 + (t % 4 == 3) + (t % 16 == 15)  # mostly 7 nodes (the quantifier's bound), some 8- and 9-node trees beyond it
            seq = r.integers(0, n, n - 2).tolist()
            tree = orient(prufer_to_edges(seq, n), int(r.integers(0, n)), n)
            for _ in range(6):
                perm = [tree[j] for j in r.permutation(len(tree))]
                names = [f"n{j}" for j in r.permutation(n)]
                yield n, perm, names
    else:
        r = ctx.rng(17, ctx.shard)
        for t in range(4000):
            n = int(r.integers(6, 8))
            seq = r.integers(0, n, n - 2).tolist()
            tree = orient(prufer_to_edges(seq, n), int(r.integers(0, n)), n)
            perm = [tree[j] for j in r.permutation(len(tree))]
            yield n, perm, [f"n{j}" for j in r.permutation(n)]


def cases(ctx):
    k = 0
    for n, listing, names in gen_listings(ctx):
        k += 1
        if k % 5 == 2:  # arbitrary node names: here names that differ only in case / surrounding blanks
            names = COLLIDING[:n]
        yield {"n": n, "edges": [list(e) for e in listing], "names": names}


COLLIDING = ["Head", "head", " head", "HEAD ", "a", " a", "A", "a ", "Tail"]  # distinct names that coincide after strip() / lower()


def directed(ctx):
    # a 12-node skeleton whose two-digit indices concatenate ambiguously ((1,10) and (11,0) both read "110"), under several listings
    big = [[1, 10], [10, 11], [11, 0], [0, 2], [2, 3], [3, 4], [4, 5], [5, 6], [6, 7], [7, 8], [8, 9]]
    rr = np.random.default_rng(17)
    for _ in range(6):
        yield {"n": 12, "edges": [big[j] for j in rr.permutation(len(big))], "names": None}
    yield {"n": 4, "edges": [[2, 3], [1, 2], [0, 1]], "names": None}
    yield {"n": 5, "edges": [[3, 4], [0, 3], [1, 2], [0, 1]], "names": ["e", "d", "c", "b", "a"]}


def check(ctx, case):
    from sleap_nn.inference import paf_grouping as pg

    n, edges = case["n"], [tuple(e) for e in case["edges"]]
    names = case["names"] or [f"p{j}" for j in range(n)]
    # node *indices* in `edges` refer to positions in part_names
    scorer = pg.PAFScorer(part_names=list(names), edges=[(names[a], names[b]) for a, b in edges], pafs_stride=2)
    order = tuple(scorer.sorted_edge_inds)
    ctx.count("scorers_built")
    small = {"n": n, "edges": case["edges"], "names": case["names"], "order": list(order)}
    E = len(edges)
    if sorted(order) != list(range(E)):
        ctx.violation("not-a-permutation", f"edge order {order} is not a permutation of 0..{E - 1} for listing {edges}", small)
    else:
        entered = {}
        for pos, k in enumerate(order):
            entered[edges[k][1]] = pos
        bad = [(k, edges[k]) for pos, k in enumerate(order) if edges[k][0] in entered and entered[edges[k][0]] > pos]
        if bad:
            ctx.violation("child-before-parent", f"edge {bad[0]} is listed before the edge entering its source node; order {order}, listing {edges}", small)
        else:
            # consequence: one perfect match per edge, fed in that order, gives one instance with every node
            conns = {}
            for k in order:
                et = scorer.edge_types[k]
                conns[et] = [pg.EdgeConnection(0, 0, 1.0)]
            assign = pg.assign_connections_to_instances(conns, min_instance_peaks=0, n_nodes=n)
            ctx.count("assembly_checks")
            inst = set(assign.values())
            nodes = {pid.node_ind for pid in assign}
            if len(inst) != 1 or nodes != set(range(n)):
                ctx.violation("assembly-split", f"perfect matches assembled in order {order} give {len(inst)} instances covering nodes {sorted(nodes)}", small)
            # the order that actually *reaches* the assembly step when two fully detected animals are grouped through the real
            # group_instances_sample (observed by a pass-through recorder on assign_connections_to_instances), and its consequence
            check_grouping(ctx, pg, scorer, n, edges, small)
    if tuple(pg.toposort_edges(scorer.edge_types)) != order:
        ctx.violation("toposort-mismatch", "PAFScorer.sorted_edge_inds differs from toposort_edges(edge_types)", small)
    # non-trivial: some child edge is *listed* before its parent edge
    pos_in = {e[1]: i for i, e in enumerate(edges)}
    child_first = n >= 3 and any(e[0] in pos_in and pos_in[e[0]] > i for i, e in enumerate(edges))
    ctx.tick((tuple(edges), tuple(names)) if child_first else None, sample=small if ctx.evaluations < 3 else None)


_REC = {}


def check_grouping(ctx, pg, scorer, n, edges, small):
    import torch

    if "wrapped" not in _REC:
        orig = pg.assign_connections_to_instances

        def recorder(connections, *a, **k):
            _REC["last_keys"] = [(et.src_node_ind, et.dst_node_ind) for et in connections]
            return orig(connections, *a, **k)

        pg.assign_connections_to_instances = recorder
        _REC["wrapped"] = True
    A = 2  # animals; peaks listed channel-major, so the index of animal a among the peaks of a channel is a
    peaks = torch.tensor([[10.0 * k + 3.0, 50.0 * a + 7.0] for k in range(n) for a in range(A)], dtype=torch.float32)
    chan = torch.tensor([k for k in range(n) for a in range(A)], dtype=torch.int32)
    E = len(edges)
    m_edge = torch.tensor([k for k in range(E) for a in range(A)], dtype=torch.int32)
    m_src = torch.tensor([a for k in range(E) for a in range(A)], dtype=torch.int32)
    m_dst = m_src.clone()
    m_score = torch.ones(E * A, dtype=torch.float32)
    _REC.pop("last_keys", None)
    out = pg.group_instances_sample(peaks, torch.ones(n * A), chan, m_edge, m_src, m_dst, m_score, n, scorer.sorted_edge_inds, scorer.edge_types, min_instance_peaks=0)
    ctx.count("grouping_runs")
    keys = _REC.get("last_keys")
    if keys is None:
        ctx.count("grouping_order_unobserved")
    else:
        ctx.count("grouping_orders_observed")
        if sorted(keys) != sorted(edges):
            ctx.violation("grouping-order-incomplete", f"the connections handed to the assembly step cover edges {keys}, listing {edges}", small)
        else:
            entered = {}
            for pos, e in enumerate(keys):
                entered[e[1]] = pos
            bad = [e for pos, e in enumerate(keys) if e[0] in entered and entered[e[0]] > pos]
            if bad:
                ctx.violation("grouping-order-child-before-parent", f"assembly visits edge {bad[0]} before the edge entering its source node: visiting order {keys}, listing {edges}", small)
    inst = np.asarray(out[0], float)
    if inst.shape[0] != A or np.isnan(inst).any():
        missing = [np.where(np.isnan(q).any(-1))[0].tolist() for q in inst]
        ctx.violation("body-part-left-ungrouped", f"two fully detected animals grouped into {inst.shape[0]} instances with missing parts {missing}; listing {edges}", small)


def finalize(ctx):
    if ctx.tier == "thorough" and ctx.shard == 0:  # ambient contracts while the repository's own pinned tests run
        from vf import ambient

        ambient.run_tests(ctx, "C17", ["tests/inference/test_paf_grouping.py"], ["toposort_edges"])
    ctx.require("scorers_built", 100)
    ctx.require("assembly_checks", 100)
    ctx.require("grouping_orders_observed", 100)
    ctx.extra["enumerated_up_to_nodes"] = 5 if ctx.tier == "quick" else 6


LEVEL_TEXT = ("The finite space of rooted labelled trees x edge listings is enumerated completely up to 5 (quick) / 6 (thorough) nodes and sampled at 7; for each the real "
              "PAFScorer order is observed and checked (permutation, parent-before-child, assembly consequence). Exhaustive at small scope, sampled beyond.")
LEVEL_NOTE = "Trusted: the Pruefer enumeration in vf/props/c17.py. 7-node trees are sampled, not enumerated."
TECHNIQUE = "runtime monitoring over an exhaustively enumerated input space (small-scope) with an ordering oracle"
