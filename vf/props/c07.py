"""C07 — global peak detection: reported cell attains the maximum, threshold -> NaN/0,
channel independence; integral refinement bounded, fixed on symmetric bumps, helpful on Gaussians."""
import numpy as np

from vf.core import unjson_array
from vf.props import peaks_common as pc

LEVEL = "exploration"
RULE = ("seeded maps as C06 plus tied maxima in non-rectangular arrangements, corner maxima, all-below-threshold batches, mixed valid/invalid channels, and "
        "isolated Gaussian bumps with sub-pixel centres (sigma[0.7,3], odd patch inside the map); non-trivial = map whose maximum is unique and off the first "
        "row/column, or any tie, or a Gaussian/symmetric bump; distinct by (kind, shape, threshold, patch, tie?)")
ASSUMPTIONS = ["|values| <= 100, integral_patch_size >= 2", "refinement bound asserted for thresholds >= 0",
               "Gaussian-improvement claim checked per axis with tolerance 1e-3 px on isolated unit-amplitude bumps whose patch lies inside the map"]
SHARDS = {"quick": 4, "thorough": 16}
N = {"quick": 4800, "thorough": 1080000}
BUDGET = {"quick": 100, "thorough": 600}
TIMEOUT = {"quick": 600, "thorough": 2400}
SELF_SHARDED = True
KEY_MIXED = "integral-refinement-unbounded-on-mixed-sign-patch"
KEY_ZERO = "integral-refinement-nan-on-all-zero-patch"
THRS = [-1.0, 0.0, 0.2, 0.5, 0.99, 1e9]
KINDS = pc.KINDS + ["ties", "gauss", "symmetric", "mixedvalid"]


def gen_case(ctx, i):
    r = ctx.rng(7, i)
    kind = KINDS[i % len(KINDS)]
    meta = {}
    if kind == "ties":
        S, C = int(r.integers(1, 4)), int(r.integers(1, 4))
        H, W = int(r.integers(2, 10)), int(r.integers(2, 10))
        maps = (r.random((S, C, H, W)) * 0.5).astype(np.float32)
        for s in range(S):
            for c in range(C):
                for _ in range(int(r.integers(2, 5))):
                    maps[s, c, int(r.integers(0, H)), int(r.integers(0, W))] = 1.0
    elif kind in ("gauss", "symmetric"):
        S, C = int(r.integers(1, 3)), int(r.integers(1, 4))
        huge_batch = bool(r.random() < 0.02)
        if r.random() < 0.12:  # large batches: more than 64 / 128 / 256 valid peaks refined in one call, counts not multiples of a block size
            S, C = int(r.integers(4, 18)), int(r.integers(5, 17))
        if huge_batch:  # more than 512 maps in one call, a few of them below the threshold
            S, C = int(r.integers(23, 31)), int(r.integers(23, 27))
        patch = int(r.choice([3, 5, 7, 4, 6, 2]))
        H, W = int(r.integers(patch + 2, 20)), int(r.integers(patch + 2, 20))
        maps = np.zeros((S, C, H, W), np.float32)
        yy, xx = np.mgrid[0:H, 0:W]
        centres = np.zeros((S, C, 2))
        sg = np.zeros((S, C))
        h = patch // 2
        for s in range(S):
            for c in range(C):
                cx, cy = r.uniform(h + 0.5, W - 1.5 - h), r.uniform(h + 0.5, H - 1.5 - h)
                if kind == "symmetric":
                    cx, cy = float(round(cx)), float(round(cy))
                sg[s, c] = r.uniform(0.7, 3.0)
                centres[s, c] = (cx, cy)
                maps[s, c] = np.exp(-((xx - cx) ** 2 + (yy - cy) ** 2) / (2 * sg[s, c] ** 2))
        meta = {"centres": centres, "sigmas": sg}
        thr_ = float(r.choice([0.0, 0.2, 0.5]))
        if huge_batch:
            thr_ = float(r.choice([0.2, 0.5]))
            for _ in range(3):
                maps[int(r.integers(0, S)), int(r.integers(0, C))] *= 0.05  # invalid maps in the middle of the batch
        return {"i": i, "kind": kind, "thr": thr_, "patch": patch, "maps": maps, **meta}
    elif kind == "mixedvalid":
        maps = pc.gen_maps(r, "bumps")
        S, C = maps.shape[:2]
        for s in range(S):
            for c in range(C):
                if r.random() < 0.5:
                    maps[s, c] *= 0.1
        thr = 0.2
        return {"i": i, "kind": kind, "thr": thr, "patch": int(r.choice([2, 3, 4, 5, 7])), "maps": maps}
    else:
        maps = pc.gen_maps(r, kind)
    thr = float(THRS[int(r.integers(0, len(THRS)))])
    f64 = bool(r.random() < 0.15)
    if f64:  # float64 maps whose top cells differ by less than float32 resolution: only float64 arithmetic finds the true maximum
        maps = maps.astype(np.float64) + r.integers(0, 7, maps.shape) * 1e-10
    return {"i": i, "kind": kind, "thr": thr, "patch": int(r.choice([2, 3, 4, 5, 7])), "maps": maps, "f64": f64}


def directed(ctx):
    # DESIGN §4-C07 witness: maxima at (x=1,y=3) and (x=4,y=0)
    m = np.zeros((1, 1, 5, 6), np.float32)
    m[0, 0, 3, 1] = 1.0
    m[0, 0, 0, 4] = 1.0
    yield {"i": -1, "kind": "directed-ties", "thr": 0.2, "patch": 3, "maps": m}
    m = np.zeros((1, 2, 7, 7), np.float32)
    m[0, 0, 3, 3] = 1.0
    m[0, 0, 3, 4] = -0.6
    m[0, 0, 2, 3] = -0.39
    m[0, 1, 5, 5] = 0.05
    yield {"i": -2, "kind": "directed-mixed", "thr": 0.2, "patch": 3, "maps": m}
    yield {"i": -3, "kind": "directed-zero", "thr": 0.0, "patch": 3, "maps": np.zeros((1, 1, 6, 6), np.float32)}
    # a map with more than 2**24 cells whose maximum sits at an odd flat index above 2**24 (indices beyond float32's integer range)
    for (yy_, xx_) in ((4099, 4099), (4095, 4093)):
        big = np.zeros((1, 1, 4100, 4100), np.float32)
        big[0, 0, yy_, xx_] = 1.0
        yield {"i": -4, "kind": "directed-huge", "thr": 0.2, "patch": 3, "maps": big}


def cases(ctx):
    for i in range(N[ctx.tier]):
        if i % ctx.nshards == ctx.shard:
            yield gen_case(ctx, i)


def check(ctx, case):
    import torch
    from sleap_nn.inference import peak_finding as pf

    dt = np.float64 if case.get("f64") else np.float32
    maps = case["maps"] if isinstance(case["maps"], np.ndarray) else unjson_array(case["maps"], dt)
    maps = np.ascontiguousarray(maps, dtype=dt)
    if case.get("f64"):
        ctx.count("float64_cases")
    S, C, H, W = maps.shape
    thr, patch = case["thr"], case["patch"]
    small = dict(case)
    small["maps"] = maps
    pts, vals = pf.find_global_peaks_rough(torch.from_numpy(maps.copy()), threshold=thr)
    ctx.count("rough_calls")
    if tuple(pts.shape) != (S, C, 2) or tuple(vals.shape) != (S, C):
        ctx.violation("return-shape", f"shapes {tuple(pts.shape)}, {tuple(vals.shape)} != ({S},{C},2), ({S},{C})", small)
        ctx.tick()
        return
    P, V = pts.numpy().astype(np.float64), vals.numpy().astype(np.float64)
    tie_any, offfirst = False, False
    for s in range(S):
        for c in range(C):
            m = maps[s, c].astype(np.float64)
            mx = m.max()
            n_max = int((m == mx).sum())
            tie_any |= n_max > 1
            ctx.count("maps_checked")
            if mx < thr:
                ctx.count("below_threshold_maps")
                if not (np.isnan(P[s, c]).all() and V[s, c] == 0):
                    ctx.violation("below-threshold", f"map (s={s},c={c}) max {mx:.4g} < threshold {thr} but got point {P[s, c].tolist()} value {V[s, c]}", small)
                continue
            x, y = P[s, c]
            if not (np.isfinite(x) and np.isfinite(y)) or x != int(x) or y != int(y) or not (0 <= x < W and 0 <= y < H):
                ctx.violation("not-a-cell", f"map (s={s},c={c}) max {mx:.4g} >= threshold {thr} but point is {P[s, c].tolist()}", small)
                continue
            if m[int(y), int(x)] != mx:
                ys, xs = np.where(m == mx)
                rect = len(ys) == len(set(ys)) * len(set(xs))
                key = "tied-maxima-x-and-y-from-different-cells" if (n_max > 1 and not rect) else "not-a-maximum"
                ctx.violation(key, f"map (s={s},c={c}): reported cell (x={int(x)},y={int(y)}) holds {m[int(y), int(x)]:.4g} but the maximum is {mx:.4g} at {list(zip(xs.tolist(), ys.tolist()))[:4]}", small)
                continue
            if V[s, c] != mx:
                ctx.violation("value", f"map (s={s},c={c}): reported value {V[s, c]} != maximum {mx}", small)
            if n_max == 1 and x > 0 and y > 0:
                offfirst = True
    # channel independence: solo calls (a sample of 12 maps when the batch is large)
    cells = [(s, c) for s in range(S) for c in range(C)]
    if len(cells) > 20:
        rr = np.random.default_rng(abs(int(case["i"])) + 7)
        cells = [cells[j] for j in sorted(rr.choice(len(cells), 11, replace=False).tolist())] + [cells[-1]]
    if case["i"] % 3 == 0 or case["i"] < 0:
        for s, c in cells:
            if True:
                p1, v1 = pf.find_global_peaks_rough(torch.from_numpy(maps[s:s + 1, c:c + 1].copy()), threshold=thr)
                ctx.count("solo_calls")
                a, b = p1.numpy().reshape(2).astype(np.float64), P[s, c]
                if not (np.array_equal(np.isnan(a), np.isnan(b)) and np.allclose(np.nan_to_num(a), np.nan_to_num(b))) or float(v1.reshape(())) != V[s, c]:
                    ctx.violation("channel-dependence", f"map (s={s},c={c}) alone gives {a.tolist()} but {b.tolist()} inside the batch", small)
    # refinement
    rp, rv = pf.find_global_peaks(torch.from_numpy(maps.copy()), threshold=thr, refinement="integral", integral_patch_size=patch)
    ctx.count("refine_calls")
    if S * C > 64:
        ctx.count("refine_calls_over_64_maps")
    if S * C > 512:
        ctx.count("refine_calls_over_512_maps")
    R = rp.numpy().astype(np.float64)
    if tuple(rp.shape) != (S, C, 2) or not np.array_equal(rv.numpy(), vals.numpy()):
        ctx.violation("refine-changes-values", "refinement changed shapes or peak values", small)
    else:
        for s in range(S):
            for c in range(C):
                if np.isnan(P[s, c]).any():
                    if not np.isnan(R[s, c]).all():
                        ctx.violation("refine-nan-row", f"invalid map (s={s},c={c}) became {R[s, c].tolist()} after refinement", small)
                    continue
                x, y = int(P[s, c, 0]), int(P[s, c, 1])
                d = R[s, c] - P[s, c]
                pos, neg = pc.patch_signs(maps[s, c], x, y, patch)
                ctx.count("refined_points")
                ok = np.all(np.isfinite(d)) and np.all(np.abs(d) <= patch / 2 + 1e-4)
                if not ok:
                    if pos and neg:
                        ctx.violation(KEY_MIXED, f"refined offset {d.tolist()} exceeds patch/2={patch / 2} on a patch with mixed signs", small)
                    elif not pos and not neg and V[s, c] == 0:
                        ctx.violation(KEY_ZERO, f"all-zero patch accepted at threshold {thr} (max == threshold == 0): refined point {R[s, c].tolist()}", small)
                    elif thr >= 0:
                        ctx.violation("refine-bound", f"refined offset {d.tolist()} exceeds patch/2={patch / 2} at (s={s},c={c}) on a same-sign patch", small)
                    continue
                if case["kind"] == "symmetric":
                    ctx.count("symmetric_bumps")
                    if np.abs(d).max() > 1e-4:
                        ctx.violation("symmetric-moved", f"symmetric bump centred on cell ({x},{y}) moved by {d.tolist()}", small)
                if case["kind"] == "gauss":
                    cen = np.asarray(unjson_array(case["centres"]) if not isinstance(case["centres"], np.ndarray) else case["centres"])[s, c]
                    e_rough, e_ref = np.abs(P[s, c] - cen), np.abs(R[s, c] - cen)
                    ctx.count("gaussian_bumps")
                    if np.any(e_ref > e_rough + 1e-3):
                        ctx.violation("gaussian-not-improved", f"Gaussian centre {cen.tolist()}: rough error {e_rough.tolist()} -> refined error {e_ref.tolist()} (patch {patch})", small)
        # independence of refined rows (valid rows must not be disturbed by NaN rows / other channels)
        if case["i"] % 3 == 0 or case["i"] < 0:
            for s, c in cells:
                if True:
                    q = pf.find_global_peaks(torch.from_numpy(maps[s:s + 1, c:c + 1].copy()), threshold=thr, refinement="integral", integral_patch_size=patch)[0]
                    ctx.count("solo_refine_calls")
                    a, b = q.numpy().reshape(2).astype(np.float64), R[s, c]
                    fin = np.isfinite(a).all() and np.isfinite(b).all()
                    if (fin and np.abs(a - b).max() > 2e-3) or (not fin and not np.array_equal(np.isnan(a), np.isnan(b))):
                        ctx.violation("refine-channel-dependence", f"refined peak of map (s={s},c={c}) is {b.tolist()} in the batch but {a.tolist()} alone", small)
    nt = offfirst or tie_any or case["kind"] in ("gauss", "symmetric")
    sig = (case["kind"], H, W, thr, patch, tie_any) if nt else None
    ctx.tick(sig, sample={"kind": case["kind"], "shape": [S, C, H, W], "thr": thr, "patch": patch, "points": P.tolist()[:1]} if case["i"] in (0, 1, 2, 3) else None)


def finalize(ctx):
    if ctx.tier == "thorough" and ctx.shard == 0:  # ambient contracts while the repository's own pinned tests run
        from vf import ambient

        ambient.run_tests(ctx, "C07", ["tests/inference/test_peak_finding.py"], ["find_global_peaks_rough"])
    ctx.require("maps_checked", 50)
    ctx.require("refined_points", 20)
    ctx.require("solo_calls", 10)
    ctx.require("gaussian_bumps", 5)
    ctx.require("symmetric_bumps", 5)
    ctx.require("below_threshold_maps", 5)
    ctx.require("refine_calls_over_64_maps", 1)


LEVEL_TEXT = ("Every real find_global_peaks_rough / find_global_peaks call on seeded maps is checked against the map itself (reported cell attains the maximum, value, "
              "threshold rule), against solo calls per map (channel independence, rough and refined) and against analytic bumps (symmetric unmoved, Gaussian "
              "improved, offset <= patch/2). Exploration; oracles are exact.")
LEVEL_NOTE = "Trusted: numpy max / comparisons. |values| <= 100, patch >= 2; Gaussian-improvement tolerance 1e-3 px."
TECHNIQUE = "runtime monitoring: boundary probe + exact max oracle + metamorphic channel-independence + analytic bumps"
