"""C16 — evaluation metrics: perfect for perfect predictions, bounded, monotone; deleting
predictions never increases recall."""
import numpy as np

from vf.core import unjson_array

LEVEL = "exploration"
RULE = ("seeded label pairs on a raw HDF5 video: 1-6 frames x 1-4 animals x 2-5 nodes x ground-truth NaN patterns x prediction noise {0,0.5,2,10 px} x missing / extra / "
        "duplicate predictions x score orderings (incl. ties); for each pair: the perfect-copy evaluation, the noisy evaluation, custom increasing threshold arrays, and "
        "deletion of every single prediction plus random subsets. non-trivial = pair with >=2 frames and (noise > 0 or a missing/extra/duplicate prediction); distinct by "
        "(frames, animals per frame, NaN class, noise, manipulation set)")
ASSUMPTIONS = ["every ground-truth instance has >= 1 visible node and animals are in general position (no coincident poses)",
               "deleting a prediction removes the instance but keeps its (possibly empty) predicted frame",
               "mean-type ratios that are undefined because there is no matched pair at all (NaN) are not 'reported ratios'"]
SHARDS = {"quick": 4, "thorough": 16}
N = {"quick": 720, "thorough": 144000}
BUDGET = {"quick": 110, "thorough": 600}
TIMEOUT = {"quick": 600, "thorough": 3000}
SELF_SHARDED = True
KEY_GREEDY = "deleting-a-higher-scored-poorer-competitor-increases-recall"
_V = {}


def gen_case(ctx, i):
    r = ctx.rng(16, i)
    F = int(r.integers(1, 7))
    big = (i % 10 == 7)  # a large project: 25-112 ground-truth instances (counts n for which n * (1/n) != 1 in floating point among them)
    if big:
        F = int(r.integers(5, 9))
    n_nodes = int(r.integers(2, 6))
    noise = float(r.choice([0, 0.5, 2, 10]))
    nan_class = str(r.choice(["none", "none", "some", "heavy"]))
    manip = sorted(set(r.choice(["none", "missing", "extra", "duplicate"], size=int(r.integers(1, 3))).tolist()))
    frames = []
    for f in range(F):
        A = int(r.integers(5, 15)) if big else int(r.integers(1, 5))
        gts, prs = [], []
        for a in range(A):
            c = np.array([60.0 + 130 * a, 60.0 + 20 * f]) + r.uniform(-10, 10, 2)
            g = c + r.uniform(-25, 25, (n_nodes, 2))
            if nan_class != "none":
                m = r.random(n_nodes) < (0.25 if nan_class == "some" else 0.6)
                if m.all():
                    m[int(r.integers(0, n_nodes))] = False
                g[m] = np.nan
            gts.append(g)
            p = np.where(np.isnan(g), c + r.uniform(-25, 25, (n_nodes, 2)), g) + r.normal(0, noise, (n_nodes, 2)) if noise else g.copy()
            if r.random() < 0.15:
                p[r.random(n_nodes) < 0.3] = np.nan
            prs.append({"pts": p, "score": float(np.round(r.random(), int(r.choice([1, 5])))), "of": a})
        if "missing" in manip and prs and r.random() < 0.6:
            prs.pop(int(r.integers(0, len(prs))))
        if "extra" in manip and r.random() < 0.6:
            prs.append({"pts": r.uniform(0, 500, (n_nodes, 2)), "score": float(r.random()), "of": -1})
        if "duplicate" in manip and prs and r.random() < 0.7:
            src = prs[int(r.integers(0, len(prs)))]
            prs.append({"pts": src["pts"] + r.normal(0, float(r.choice([0.5, 5, 15])), (n_nodes, 2)), "score": float(min(1.0, src["score"] + r.uniform(-0.3, 0.5))), "of": src["of"]})
        order = r.permutation(len(prs))
        frames.append({"gt": gts, "pr": [prs[j] for j in order]})
    return {"i": i, "n_nodes": n_nodes, "noise": noise, "nan_class": nan_class, "manip": manip, "frames": frames, "seed": int(r.integers(0, 2 ** 31)),
            "two_videos": bool(r.random() < 0.3), "pred_in_gt": bool(r.random() < 0.25)}


def directed(ctx):
    # DESIGN §4-C16 witness: higher-scored poorer duplicate P1 and exact P2 for the same animal
    g = np.array([[10.0, 10.0], [40.0, 10.0], [25.0, 40.0]])
    g2 = g + [200.0, 0.0]
    yield {"i": -1, "n_nodes": 3, "noise": 0.0, "nan_class": "none", "manip": ["duplicate"], "seed": 1,
           "frames": [{"gt": [g, g2], "pr": [{"pts": g + 9.0, "score": 0.9, "of": 0}, {"pts": g.copy(), "score": 0.5, "of": 0}]}]}
    yield from directed_counts()


def directed_counts():
    # totals n of ground-truth instances for which n * (1.0 / n) != 1.0 (49, 98, 103, 107, 161): recall must still reach exactly 1
    for t, per_frame in enumerate(([7] * 7, [14] * 7, [13] * 7 + [12], [14] * 7 + [9], [21] * 7 + [14])):
        r = np.random.default_rng(1600 + t)
        frames = []
        for f, A in enumerate(per_frame):
            gts = [np.array([60.0 + 130 * a, 60.0 + 20 * f]) + r.uniform(-25, 25, (3, 2)) for a in range(A)]
            frames.append({"gt": gts, "pr": [{"pts": g + r.normal(0, 2.0, (3, 2)), "score": float(np.round(r.random(), 3)), "of": a} for a, g in enumerate(gts)]})
        yield {"i": -10 - t, "n_nodes": 3, "noise": 2.0, "nan_class": "none", "manip": ["none"], "frames": frames, "seed": 16 + t}


def cases(ctx):
    for i in range(N[ctx.tier]):
        if i % ctx.nshards == ctx.shard:
            yield gen_case(ctx, i)


def arr(x, n_nodes):
    a = x if isinstance(x, np.ndarray) else unjson_array(x)
    return a.reshape(n_nodes, 2)


def build_labels(case, pr_filter=None, perfect=False):
    import sleap_io as sio
    from vf import synth

    if "v" not in _V:
        _V["v"] = synth.blank_video("C16", n_frames=8)
        _V["v2"] = synth.blank_video("C16", n_frames=8, name="blank2.h5")
    n = case["n_nodes"]
    sk = _V.setdefault(("sk", n), synth.skeleton(n))
    gt_lfs, pr_lfs = [], []
    two = bool(case.get("two_videos"))  # a project with two videos whose labelled frames share their frame indices
    for f_pos, fr in enumerate(case["frames"]):
        v, f = (_V["v2"], f_pos // 2) if (two and f_pos % 2) else (_V["v"], f_pos // 2 if two else f_pos)
        gts = [synth.user_instance(arr(g, n), sk) for g in fr["gt"]]
        if case.get("pred_in_gt") and gts:  # the ground-truth project also holds earlier predictions next to the user labels (ignored: user_labels_only)
            extra = synth.pred_instance(arr(fr["gt"][0], n) + 31.0, sk, score=0.5)
            gts.insert((f_pos * 7 + len(gts)) % (len(gts) + 1), extra)
        if perfect:
            prs = [synth.pred_instance(arr(g, n), sk, score=0.1 + 0.8 * ((f_pos * 7 + a * 3) % 5) / 5) for a, g in enumerate(fr["gt"])]
        else:
            prs = [synth.pred_instance(arr(p["pts"], n), sk, score=p["score"]) for j, p in enumerate(fr["pr"]) if pr_filter is None or (f_pos, j) not in pr_filter]
        gt_lfs.append(sio.LabeledFrame(video=v, frame_idx=f, instances=gts))
        pr_lfs.append(sio.LabeledFrame(video=v, frame_idx=f, instances=prs))
    return sio.Labels(gt_lfs), sio.Labels(pr_lfs)


def evaluate(case, **kw):
    from sleap_nn.evaluation import Evaluator

    lg, lp = build_labels(case, **kw)
    with np.errstate(all="ignore"):
        ev = Evaluator(lg, lp)
        m = ev.evaluate()
    return ev, m


def in01(x):
    x = np.asarray(x, dtype=float)
    return bool(np.all(np.isfinite(x)) and x.min(initial=0) >= -1e-12 and x.max(initial=0) <= 1 + 1e-12)


def check(ctx, case):
    n = case["n_nodes"]
    small = case
    # ---- A. perfect predictions
    ev, m = evaluate(case, perfect=True)
    ctx.count("evaluations_perfect")
    voc = m["voc_metrics"]
    vis_frac = float(np.mean([~np.isnan(arr(g, n)).any(-1) for fr in case["frames"] for g in fr["gt"]]))
    d = np.asarray(m["distance_metrics"]["dists"], float)
    gt_missing = np.array([np.isnan(p[0].instance.numpy()).any(-1) for p in ev.positive_pairs]) if len(ev.positive_pairs) else np.zeros((0, n), bool)
    problems = []
    if abs(m["mOKS"]["mOKS"] - 1) > 1e-12:
        problems.append(f"mOKS={m['mOKS']['mOKS']}")
    if len(ev.false_negatives):
        problems.append(f"{len(ev.false_negatives)} false negatives")
    if d.shape != gt_missing.shape or not np.all((d == 0) | (np.isnan(d) & gt_missing)) or np.any(np.isnan(d) != gt_missing):
        problems.append("distances are not 0 (NaN exactly where the node is missing)")
    for k in ("AP", "AR", "mAP", "mAR"):
        val = np.asarray(voc["oks_voc." + k], float)
        if np.any(val < 1 - 1e-9) or np.any(val > 1 + 1e-12):
            problems.append(f"{k}={val.tolist() if val.ndim else float(val)}")
    if abs(m["pck_metrics"]["mPCK"] - vis_frac) > 1e-12:
        problems.append(f"mPCK={m['pck_metrics']['mPCK']} but visible fraction is {vis_frac}")
    if problems:
        ctx.violation("perfect-not-perfect", "perfect predictions: " + "; ".join(problems), small)
    # ---- B/C. the noisy evaluation: bounds + monotonicity
    ev, m = evaluate(case)
    ctx.count("evaluations_noisy")
    voc = m["voc_metrics"]
    has_pairs = len(ev.positive_pairs) > 0
    ratios = {k: voc["oks_voc." + k] for k in ("AP", "AR", "mAP", "mAR", "precisions", "recalls")}
    if has_pairs:
        ratios.update(mOKS=m["mOKS"]["mOKS"], mPCK=m["pck_metrics"]["mPCK"], mPCK_parts=m["pck_metrics"]["mPCK_parts"], pcks=np.asarray(m["pck_metrics"]["pcks"], float))
        for k in ("precision", "recall"):
            if not np.isnan(m["visibility_metrics"][k]):
                ratios["vis_" + k] = m["visibility_metrics"][k]
    bad = [k for k, vv in ratios.items() if not in01(vv)]
    if bad:
        ctx.violation("ratio-out-of-range", f"ratios outside [0,1] or non-finite: {bad}", small)
    r = np.random.default_rng(case["seed"])
    thr = np.sort(r.uniform(0.05, 0.99, int(r.integers(2, 12))))
    with np.errstate(all="ignore"):
        v2 = ev.voc_metrics(match_score_thresholds=thr)
        if has_pairs:
            v3 = ev.voc_metrics(match_score_by="pck", match_score_thresholds=thr)
            ctx.count("pck_voc_calls")
            for k in ("AP", "AR"):
                if not in01(v3["pck_voc." + k]):
                    ctx.violation("ratio-out-of-range", f"pck_voc.{k} outside [0,1]", small)
    if has_pairs:
        for k in ("AP", "AR"):
            a = np.asarray(v2["oks_voc." + k], float)
            ctx.count("threshold_monotonicity_checks")
            if np.any(np.diff(a) > 1e-12):
                ctx.violation("voc-not-monotone", f"{k} increases with the match threshold: thresholds {thr.tolist()} -> {a.tolist()}", small)
        pthr = np.sort(r.uniform(0.1, 30, int(r.integers(2, 10))))
        pk = ev.pck_metrics(thresholds=pthr)
        per_thr = np.asarray(pk["pcks"], float).mean(axis=(0, 1))
        if np.any(np.diff(per_thr) < -1e-12):
            ctx.violation("pck-not-monotone", f"PCK decreases with the pixel threshold: {pthr.tolist()} -> {per_thr.tolist()}", small)
        # the caller's threshold array need not be ascending: monotonicity is in the threshold *value*, whatever the array order
        r2 = np.random.default_rng(case["seed"] + 1)
        perm = r2.permutation(len(thr)) if case["seed"] % 2 else np.arange(len(thr))[::-1]
        with np.errstate(all="ignore"):
            v5 = ev.voc_metrics(match_score_thresholds=thr[perm])
        o = np.argsort(thr[perm], kind="stable")
        for k in ("AP", "AR"):
            a = np.asarray(v5["oks_voc." + k], float)[o]
            ctx.count("unsorted_threshold_checks")
            if np.any(np.diff(a) > 1e-12):
                ctx.violation("voc-not-monotone-unsorted-thresholds", f"{k} increases with the match threshold when thresholds are passed as {np.round(thr[perm], 3).tolist()}: {k}={np.asarray(v5['oks_voc.' + k], float).tolist()}", small)
        pperm = r2.permutation(len(pthr))
        pk2 = ev.pck_metrics(thresholds=pthr[pperm])
        per2 = np.asarray(pk2["pcks"], float).mean(axis=(0, 1))[np.argsort(pthr[pperm], kind="stable")]
        if np.any(np.diff(per2) < -1e-12):
            ctx.violation("pck-not-monotone-unsorted-thresholds", f"PCK decreases with the pixel threshold when thresholds are passed as {np.round(pthr[pperm], 2).tolist()}", small)
    # ---- D. deleting predictions never increases recall
    base_AR = np.asarray(v2["oks_voc.AR"], float) if has_pairs else np.zeros(len(thr))
    all_ids = [(f, j) for f, fr in enumerate(case["frames"]) for j in range(len(fr["pr"]))]
    subsets = [{x} for x in all_ids]
    for _ in range(min(4, len(all_ids))):
        k = int(r.integers(1, len(all_ids) + 1))
        subsets.append({all_ids[j] for j in r.choice(len(all_ids), k, replace=False)})
    if ctx.tier == "quick":
        subsets = subsets[:10]
    elif len(subsets) > 30:
        subsets = [subsets[j] for j in sorted(r.choice(len(subsets), 30, replace=False).tolist())]
    matched = {}
    if has_pairs:
        from sleap_nn.evaluation import compute_oks

        for g, p, oks in ev.positive_pairs:
            matched[id(p.instance)] = (g, oks)
    for sub in subsets:
        ev2, _ = None, None
        lg, lp = build_labels(case, pr_filter=sub)
        from sleap_nn.evaluation import Evaluator

        with np.errstate(all="ignore"):
            ev2 = Evaluator(lg, lp)
            v4 = ev2.voc_metrics(match_score_thresholds=thr)
        ctx.count("deletion_checks")
        AR2 = np.asarray(v4["oks_voc.AR"], float) if len(ev2.positive_pairs) else np.zeros(len(thr))
        if np.any(AR2 > base_AR + 1e-12):
            key = "deletion-increases-recall"
            if greedy_competition(case, sub, n):
                key = KEY_GREEDY
            ctx.violation(key, f"deleting predictions {sorted(sub)} raises AR from {base_AR.tolist()} to {AR2.tolist()} at thresholds {np.round(thr, 3).tolist()}", small)
    nt = len(case["frames"]) >= 2 and (case["noise"] > 0 or case["manip"] != ["none"])
    sig = (len(case["frames"]), tuple(len(fr["gt"]) for fr in case["frames"]), case["nan_class"], case["noise"], tuple(case["manip"])) if nt else None
    ctx.tick(sig, sample={"frames": len(case["frames"]), "noise": case["noise"], "manip": case["manip"], "first_frame": case["frames"][0]} if case["i"] in (0, 1) else None)


def greedy_competition(case, deleted, n):
    """Mechanism classifier for the known finding: in a frame that lost a prediction, the full
    score-ordered greedy matching gave some ground truth G to a prediction P although a
    prediction Q later in score order has a strictly higher OKS with G."""
    from sleap_nn.evaluation import compute_oks

    for f, fr in enumerate(case["frames"]):
        dels = [j for (ff, j) in deleted if ff == f]
        if not dels:
            continue
        G = np.stack([arr(g, n) for g in fr["gt"]])
        P = np.stack([arr(p["pts"], n) for p in fr["pr"]])
        with np.errstate(all="ignore"):
            oks = compute_oks(G, P)  # (n_gt, n_pr)
        scores = np.array([p["score"] for p in fr["pr"]])
        order = np.argsort(-scores, kind="mergesort")
        avail = list(range(len(G)))
        assigned = {}
        for j in order:
            if not avail:
                break
            o = np.array([oks[g, j] for g in avail])
            o = np.where(o <= 0, np.nan, o)
            if np.all(np.isnan(o)):
                continue
            b = int(np.argsort(-o, kind="mergesort")[0])
            assigned[j] = avail.pop(b)
        # any ground truth of this frame whose greedy partner P has a lower OKS than a prediction Q that
        # comes later in score order (Q lost G to a higher-scored, poorer competitor): deleting a
        # prediction of the frame can re-route such matches (directly or through a chain)
        rank = {int(j): k for k, j in enumerate(order)}
        for j, g in assigned.items():
            for q in range(len(P)):
                if q != j and rank[q] > rank[j] and oks[g, q] > oks[g, j]:
                    return True
    return False


def finalize(ctx):
    for k in ("evaluations_perfect", "evaluations_noisy", "deletion_checks", "threshold_monotonicity_checks"):
        ctx.require(k, 5)


LEVEL_TEXT = ("The real Evaluator runs on seeded synthetic label pairs (current sleap-io objects on a raw HDF5 video): perfect copies must score perfectly, every ratio is range-"
              "checked, AP/AR and PCK are checked for monotonicity on random increasing threshold arrays, and every single-prediction deletion (plus random subsets) is "
              "re-evaluated and compared with the full run. Exploration with exact oracles.")
LEVEL_NOTE = "Trusted: sleap-io Labels construction in vf/synth.py; the known-finding classifier re-implements the score-ordered greedy matching to recognise that one mechanism only."
TECHNIQUE = "runtime monitoring: metamorphic oracles (fixed point, bounds, monotonicity, deletion) on the real Evaluator"
