"""C03 — bottom-up inference reassembles exactly the labelled animals from ideal maps.

Real BottomUpPredictor (reader thread, make_pipeline for both providers, _predict_generator,
BottomUpInferenceModel, peak finding, PAF scoring/grouping) with the bottom-up oracle network."""
import numpy as np

from vf import e2e, oracle_net as on

LEVEL = "exploration"
RULE = ("seeded scenes: random rooted tree skeletons (2-6 nodes, shuffled listing) x 1-5 well-separated animals with missing nodes x images 110-235 px non-square x size matching on/off x "
        "input scale {1,0.5,0.75} x (cms stride, paf stride) in {1,2,4,8}^2 x refinement {None, integral} x batch 1-4 x max_stride {16,32} x provider {LabelsReader, VideoReader}; every 5th LabelsReader run reads a two-video project whose first frame comes from a tiny empty video (one inference model, batches of different size); every 7th scene is a crowded 3x3 / 3x2 grid of compact animals (17-36 peaks per frame). "
        "non-trivial = frame with >= 2 animals or an animal with a missing node; distinct by the configuration tuple + skeleton")
ASSUMPTIONS = ["well-separated premise enforced by the generator: animal centres >= 2.6 body sizes apart, nodes of an animal >= 2.5 confidence-map cells apart (in network-input pixels)",
               "the oracle network's PAF width is chosen from the two strides (sigma = max(1.5*paf_stride, 3, 0.9*cms_stride) input px: at least as wide as the quantisation of the peaks) - the network is free to be ideal, the claim is about the decoder",
               "tolerance per axis: (0.5*cms_stride + a)/(input_scale*eff_scale) original px with a = 0.35 + the explicit integer-size rounding of the resizing steps (vf/e2e.py:tol); RGB pipeline"]
SHARDS = {"quick": 8, "thorough": 16}
N = {"quick": 280, "thorough": 54000}
BUDGET = {"quick": 110, "thorough": 600}
TIMEOUT = {"quick": 800, "thorough": 3400}
SELF_SHARDED = True
KEY_LABELS = "labelsreader-path-skips-scaling-and-stride-padding"


def rand_tree(r, n):
    perm = r.permutation(n)
    edges = [[int(perm[r.integers(0, k)]), int(perm[k])] for k in range(1, n)]
    return [edges[j] for j in r.permutation(len(edges))]


def gen_case(ctx, i):
    r = ctx.rng(3, i)
    H, W = int(r.integers(130, 234)), int(r.integers(130, 234))
    if abs(H - W) < 12:
        W = min(234, W + 24)
    mode = str(r.choice(["none", "none", "larger", "smaller"]))
    if mode == "larger":
        f = r.uniform(1.05, 1.6)
        max_hw = [int(H * f) + int(r.integers(0, 7)), int(W * f) + int(r.integers(0, 7))]
    elif mode == "smaller":
        f = r.uniform(0.7, 0.95)
        max_hw = [int(H * f), int(W * f * r.uniform(0.95, 1.05))]
    else:
        max_hw = [None, None]
    scale = float(r.choice([1.0, 0.5, 0.75]))
    cms = int(r.choice([1, 2, 4, 8]))
    paf = int(r.choice([1, 2, 4, 8]))
    n_nodes = int(r.integers(2, 7))
    if i % 28 == 10:  # dense frame: a 4x4 grid of small animals (5-6 nodes, stride 1): 256 candidate pairs per edge type, more than 1000 candidates per frame
        n_nodes = int(r.choice([5, 6]))
        return {"i": i, "crowd": [4, 4], "dense": True, "H": 234, "W": int(r.choice([210, 222])), "max_hw": [None, None], "scale": 1.0, "cms_stride": 1,
                "paf_stride": int(r.choice([1, 2])), "n_nodes": n_nodes, "edges": rand_tree(r, n_nodes), "n_animals": 16, "missing_p": 0.0,
                "refinement": [None, "integral"][int(r.integers(0, 2))], "batch": int(r.integers(1, 3)), "max_stride": 16, "n_frames": 2, "seed": int(r.integers(0, 2 ** 31))}
    if i % 7 == 3:  # crowded frame: a 3x3 / 3x2 grid of compact animals, 17-36 peaks per frame (candidate lists of >= 17 elements)
        n_nodes = int(r.choice([3, 4]))
        return {"i": i, "crowd": [3, int(r.choice([2, 3]))], "H": 234, "W": int(r.choice([210, 222])), "max_hw": [None, None], "scale": 1.0, "cms_stride": int(r.choice([1, 2])),
                "paf_stride": int(r.choice([1, 2, 4])), "n_nodes": n_nodes, "edges": rand_tree(r, n_nodes), "n_animals": 9, "missing_p": 0.0,  # complete animals only: with missing nodes a stray peak can be joined to a collinear neighbour's limb (not "well separated")
                "refinement": [None, "integral"][int(r.integers(0, 2))], "batch": int(r.integers(1, 4)), "max_stride": 16, "n_frames": 2, "seed": int(r.integers(0, 2 ** 31))}
    session = bool(i % 5 == 1)
    return {"i": i, "session": session, "H": H, "W": W, "max_hw": max_hw, "scale": scale, "cms_stride": cms, "paf_stride": paf, "n_nodes": n_nodes, "edges": rand_tree(r, n_nodes),
            "n_animals": int(r.integers(1, 6)), "missing_p": float(r.choice([0.0, 0.2, 0.35])), "refinement": [None, "integral"][int(r.integers(0, 2))], "batch": 1 if (session and mode == "none") else int(r.integers(1, 5)),
            "max_stride": int(r.choice([16, 32])), "n_frames": int(r.integers(2, 4)), "seed": int(r.integers(0, 2 ** 31)), "margin": float(r.choice([20.0, 20.0, 5.0]))}


def directed(ctx):
    yield {"i": -1, "H": 160, "W": 200, "max_hw": [None, None], "scale": 0.5, "cms_stride": 2, "paf_stride": 4, "n_nodes": 4, "edges": [[2, 3], [0, 1], [1, 2]], "n_animals": 2,
           "missing_p": 0.0, "refinement": None, "batch": 2, "max_stride": 16, "n_frames": 2, "seed": 5}


def cases(ctx):
    for i in range(N[ctx.tier]):
        if i % ctx.nshards == ctx.shard:
            yield gen_case(ctx, i)


def make_scene(case, name):
    r = np.random.default_rng(case["seed"])
    H, W, n = case["H"], case["W"], case["n_nodes"]
    eff = e2e.eff_scale_for(H, W, tuple(case["max_hw"]))
    tot = case["scale"] * eff
    spacing = max(9.0, 2.6 * case["cms_stride"] / tot, 1.2 * case["paf_stride"] / tot)  # original px between nodes of an animal
    if case.get("dense"):
        spacing = 5.0  # stride-1 confidence maps with sigma 0.75 px resolve nodes 5 px apart
    body = max(16.0, spacing * (0.8 + 0.35 * n))
    poses = {}
    grid = []
    # distance kept between keypoints and the image border: never less than ~one confidence-map cell (the grid's last row / column sits up to a cell
    # inside the frame; a keypoint beyond it by more than half a cell cannot be located to half a cell)
    m_ = min(max(float(case.get("margin", 20.0)), 1.1 * case["cms_stride"] / tot + 1.0), 20.0 if float(case.get("margin", 20.0)) >= 20.0 else max(float(case.get("margin", 20.0)), 20.0))
    if case.get("crowd"):  # centres on a regular grid, 1.6 body diameters apart: bounding boxes never touch
        gy, gx = case["crowd"]
        body = spacing * (0.8 + 0.35 * n) * 0.85
        if 2 * body * 1.6 * (gx - 1) > W - 42 - 2 * body or 2 * body * 1.6 * (gy - 1) > H - 42 - 2 * body:
            return None
        xs = np.linspace(21 + body, W - 22 - body, gx)
        ys = np.linspace(21 + body, H - 22 - body, gy)
        grid = [np.array([x, y]) for y in ys for x in xs]
    for f in range(case["n_frames"]):
        P = []
        centres = []
        for a in range(case["n_animals"] if not grid else len(grid)):
            ok = False
            for _ in range(120):
                if grid:
                    c, ok = grid[a], True
                    break
                c = np.array([r.uniform(m_ + body, W - 1 - m_ - body), r.uniform(m_ + body, H - 1 - m_ - body)]) if (W > 2 * body + 2 * m_ + 2 and H > 2 * body + 2 * m_ + 2) else None
                if c is None:
                    break
                if all(np.hypot(*(c - q)) >= 2.7 * 2 * body for q in centres):
                    ok = True
                    break
            if not ok:
                break
            pts = np.zeros((n, 2))
            good = False
            for _ in range(200):
                pts = c + r.uniform(-body, body, (n, 2))
                d = np.hypot(*(pts[:, None] - pts[None]).transpose(2, 0, 1))
                if (d[np.triu_indices(n, 1)] >= spacing).all():
                    good = True
                    break
            if not good:
                continue
            centres.append(c)
            m = r.random(n) < case["missing_p"]
            if m.sum() > n - 2:
                m[:] = False
            pts[m] = np.nan
            P.append(pts)  # general position (no rounding: an exact half-cell tie is a plateau, not a strict maximum)
        poses[(0, f)] = P
    if not any(poses.values()) or not any(len(p) for p in poses.values()):
        return None
    vids = [(H, W, case["n_frames"])]
    if case.get("session"):  # a tiny empty video the same predictor object processes first (state kept from the first batch would show on the main video)
        vids.append((48, 64, 1))
        poses[(1, 0)] = []
    return e2e.SceneFiles("C03", name, vids, n, [tuple(e) for e in case["edges"]], poses)


def expected_instances(pose, edges):
    """Connected groups (through edges with both endpoints visible) of >= 2 visible nodes."""
    n = len(pose)
    vis = ~np.isnan(pose).any(-1)
    parent = list(range(n))

    def find(x):
        while parent[x] != x:
            parent[x] = parent[parent[x]]
            x = parent[x]
        return x

    for a, b in edges:
        if vis[a] and vis[b]:
            parent[find(a)] = find(b)
    groups = {}
    for k in range(n):
        if vis[k]:
            groups.setdefault(find(k), []).append(k)
    return [sorted(g) for g in groups.values() if len(g) >= 2]


def check(ctx, case):
    import shutil

    name = f"c{case['i']}_{case['seed'] % 10 ** 6}"
    sf = make_scene(case, name)
    if sf is None:
        ctx.count("scenes_not_placeable")
        ctx.tick()
        return
    small = dict(case)
    max_hw = tuple(case["max_hw"])
    eff = e2e.eff_scale_for(case["H"], case["W"], max_hw)
    tol = e2e.tol(case["cms_stride"], case["H"], case["W"], max_hw, case["scale"])
    paf_sigma = max(1.5 * case["paf_stride"], 3.0, 0.9 * case["cms_stride"])  # wide enough for peaks quantised to the confidence-map grid (up to 0.71 cms cells off the segment)
    edges = [tuple(e) for e in case["edges"]]
    nt = False
    inconclusive = False
    try:
        for provider in ("VideoReader", "LabelsReader"):
            log = []
            pred, net = e2e.bottomup_predictor(sf, case["cms_stride"], case["paf_stride"], 0.75, paf_sigma, case["scale"], max_hw, case["max_stride"], case["batch"], case["refinement"], log)
            try:
                lp = None
                if case.get("session") and provider == "LabelsReader":
                    # a multi-video project: the tiny empty video's frame is listed (and processed) first, then the main video's frames - one
                    # inference-model object sees batches of different size (Predictor objects cannot be given a second source: make_pipeline
                    # overwrites preprocess_config, so the sequence has to come from one labels file)
                    lp = sf.write_labels([(1, 0)] + list(sf.labeled_keys), "session.slp", keep_empty=True)
                    ctx.count("session_runs")
                outs = e2e.run(pred, provider, sf, labels_path=lp)
            except TimeoutError as e:
                ctx.violation("predict-hangs", f"{provider}: {e}", small)
                continue
            except Exception as e:
                import traceback

                fr = [f for f in traceback.extract_tb(e.__traceback__) if "/sleap_nn/" in f.filename]
                if not fr:
                    raise
                ctx.violation(f"exception:{type(e).__name__}@{fr[-1].name}", f"{provider}: {type(e).__name__}: {str(e)[:200]}", small)
                continue
            ctx.count("runs:" + provider)
            ctx.count("network_calls", len(log))
            if any(not l["ok"] for l in log):
                inconclusive = True
                ctx.count("unlocatable_inputs")
            if net.contract_violations:
                ctx.violation(KEY_LABELS if provider == "LabelsReader" else "network-input-contract", f"{provider}: {net.contract_violations[0]}", small)
            got = {}
            for o in outs:
                for vi, fi, inst, vals in zip(o["video_idx"], o["frame_idx"], o["pred_instance_peaks"], o["pred_peak_values"]):
                    got[(int(vi), int(fi))] = (np.asarray(inst, float).reshape(-1, case["n_nodes"], 2), np.asarray(vals, float).reshape(-1, case["n_nodes"]))
            keys = sf.labeled_keys if provider == "LabelsReader" else [(0, f) for f in range(case["n_frames"])]
            if lp is not None:
                keys = list(keys) + [(1, 0)]  # the empty warm-up frame must yield nothing
            for key in keys:
                poses = [p for p in sf.scene.poses[sf.code_of[key]] if not np.isnan(p).all()]
                exp = [(p, g) for p in poses for g in expected_instances(p, edges)]
                P, _ = got.get(key, (np.zeros((0, case["n_nodes"], 2)), None))
                ctx.count("frames_checked")
                if len(poses) >= 2 or any(np.isnan(p).any() for p in poses):
                    nt = True
                if sum(int((~np.isnan(p).any(-1)).sum()) for p in poses) >= 17:
                    ctx.count("frames_with_17_or_more_peaks")
                if len(poses) ** 2 * len(edges) > 512:
                    ctx.count("frames_with_more_than_512_candidates")
                if len(P) != len(exp):
                    key_ = KEY_LABELS if (provider == "LabelsReader" and case["scale"] != 1.0) else "instance-count"
                    ctx.violation(key_, f"{provider}: frame {key}: {len(P)} predicted instances for {len(exp)} expected groups (animals {len(poses)})", small)
                    continue
                used = set()
                for pose, grp in exp:
                    best, bj = np.inf, None
                    for j, q in enumerate(P):
                        if j in used:
                            continue
                        m = ~np.isnan(q).any(-1)
                        if not m[grp].any():
                            continue
                        common = [k for k in grp if m[k]]
                        d = np.abs(q[common] - pose[common]).max()
                        if d < best:
                            best, bj = d, j
                    if bj is None:
                        ctx.violation("group-not-found", f"{provider}: frame {key}: no predicted instance for nodes {grp} of an animal", small)
                        continue
                    used.add(bj)
                    q = P[bj]
                    nodes = sorted(np.where(~np.isnan(q).any(-1))[0].tolist())
                    ctx.count("instances_checked")
                    if nodes != grp:
                        ctx.violation("wrong-node-set", f"{provider}: frame {key}: instance contains nodes {nodes} but the labelled connected group is {grp}", small)
                        continue
                    err = np.abs(q[grp] - pose[grp]).max()
                    if err > tol + 1e-6:
                        key_ = KEY_LABELS if (provider == "LabelsReader" and case["scale"] != 1.0) else "coordinates-off"
                        ctx.violation(key_, f"{provider}: frame {key}: keypoints off by {err:.2f} px (tolerance {tol:.2f})", small)
    finally:
        shutil.rmtree(sf.dir, ignore_errors=True)
    if inconclusive:
        ctx.note_inconclusive("oracle network could not locate some inputs")
    sig = tuple(sorted((k, str(v)) for k, v in case.items() if k not in ("i", "seed"))) if nt else None
    ctx.tick(sig, sample={"case": small, "tolerance": tol} if ctx.evaluations < 3 else None)


def finalize(ctx):
    ctx.require("runs:VideoReader", 3)
    ctx.require("runs:LabelsReader", 3)
    ctx.require("instances_checked", 20)
    ctx.require("frames_with_17_or_more_peaks", 2)
    ctx.require("session_runs", 2)
    ctx.require("frames_with_more_than_512_candidates", 1)


LEVEL_TEXT = ("Real BottomUpPredictor objects run on coordinate-coded videos with an oracle network that renders ideal multi-animal confidence maps and PAFs for the image it actually "
              "receives; the yielded instances must be in bijection with the labelled connected groups (exact node sets, coordinates within half a cell, NaN elsewhere) for both "
              "providers. Exploration over seeded skeletons, scenes and configurations.")
LEVEL_NOTE = "Trusted: vf/oracle_net.py, vf/refmodels; the generator enforces the well-separated premise and skips scenes it cannot place."
TECHNIQUE = "runtime monitoring: self-locating oracle network at the model boundary + group-level ground-truth comparison at the predictor output"
