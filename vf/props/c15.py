"""C15 — algebraic contracts of compute_oks, match_instances and the matching helpers."""
import itertools

import numpy as np

from vf.core import unjson_array

LEVEL = "exploration"
RULE = ("seeded pose arrays (1-4 gt x 1-4 pr x 1-6 nodes, dyadic coordinates, NaN patterns, single-visible-node / collinear zero-area gt, huge and tiny coordinates) x "
        "stddev scalar/array x scale None/scalar/array x both normalisations; frames with 0..4 gt and 0..4 predicted instances, arbitrary scores incl. ties, "
        "thresholds {0,0.3,0.9}; cost matrices up to 5x5 (ties, inf) for the matching helpers; boxes for IoU. non-trivial = pose pair with a missing node or "
        "degenerate box, frame with n_gt != n_pr, matrix with ties/inf; distinct by family-specific signature")
ASSUMPTIONS = ["every ground-truth pose has >= 1 visible node (an all-NaN instance has no defined OKS)", "scale > 0, stddev > 0",
               "coordinates are dyadic rationals so that integer translations are exact in float64",
               "frame_pr contains only PredictedInstance objects (instances without a score are outside match_instances' contract)"]
SHARDS = {"quick": 4, "thorough": 16}
N = {"quick": 18000, "thorough": 6000000}
BUDGET = {"quick": 100, "thorough": 600}
TIMEOUT = {"quick": 600, "thorough": 3000}
SELF_SHARDED = True
FAMILIES = ["oks", "oks", "match", "hungarian", "greedy", "iou"]


def gen_poses(r):
    n_gt, n_pr, n_nodes = int(r.integers(1, 5)), int(r.integers(1, 5)), int(r.integers(1, 7))
    cls = str(r.choice(["normal", "normal", "huge", "tiny", "degenerate"]))
    unit = {"normal": 1 / 64, "huge": 16.0, "tiny": 2.0 ** -10, "degenerate": 1 / 64}[cls]
    n_ed = 3 if r.random() < 0.15 else 2  # Euclidean dimensions (2-D or 3-D poses)
    gt = r.integers(0, 12800, (n_gt, n_nodes, n_ed)).astype(np.float64) * unit
    noise = r.choice([0, 0, 1, 8, 200]) * unit
    pr = np.empty((n_pr, n_nodes, n_ed))
    for j in range(n_pr):
        base = gt[int(r.integers(0, n_gt))] if r.random() < 0.7 else r.integers(0, 12800, (n_nodes, n_ed)) * unit
        pr[j] = base + np.round(r.normal(0, 1, (n_nodes, n_ed)) * noise / unit) * unit
    if cls == "degenerate":
        for i in range(n_gt):
            mode = int(r.integers(0, 3))
            if mode == 0 and n_nodes > 1:  # single visible node
                keep = int(r.integers(0, n_nodes))
                gt[i, [k for k in range(n_nodes) if k != keep]] = np.nan
            elif mode == 1:  # axis-aligned collinear => zero area
                gt[i, :, int(r.integers(0, 2))] = gt[i, 0, 0]
            else:
                gt[i] = gt[i, 0]
    nanp = str(r.choice(["none", "gt", "pr", "both"]))
    if nanp in ("gt", "both"):
        for i in range(n_gt):
            m = r.random(n_nodes) < 0.35
            if m.all():
                m[int(r.integers(0, n_nodes))] = False
            vis = ~np.isnan(gt[i, :, 0])
            m &= vis
            if (vis & ~m).sum() == 0:
                continue
            if r.random() < 0.3:  # only one coordinate missing still means "missing"
                for k in np.where(m)[0]:
                    gt[i, k, int(r.integers(0, 2))] = np.nan
            else:
                gt[i, m] = np.nan
    if nanp in ("pr", "both"):
        pr[r.random((n_pr, n_nodes)) < 0.3] = np.nan
        if r.random() < 0.3:
            m2 = r.random((n_pr, n_nodes)) < 0.2
            pr[..., 0][m2] = np.nan
    return gt, pr, cls, nanp, unit


def gen_case(ctx, i):
    r = ctx.rng(15, i)
    fam = FAMILIES[i % len(FAMILIES)]
    c = {"i": i, "family": fam}
    if fam == "oks":
        gt, pr, cls, nanp, unit = gen_poses(r)
        n_gt, n_nodes = gt.shape[:2]
        c.update(gt=gt, pr=pr, cls=cls, nanp=nanp, unit=unit, coco=bool(r.integers(0, 2)),
                 stddev=(float(r.uniform(0.01, 0.2)) if r.random() < 0.5 else r.uniform(0.01, 0.2, n_nodes)),
                 scale=[None, float(np.exp(r.uniform(0, 9))), np.exp(r.uniform(0, 9, n_gt))][int(r.integers(0, 3))],
                 seed=int(r.integers(0, 2 ** 31)), f32=bool(r.random() < 0.3))
    elif fam == "match":
        n_gt, n_pr, n_nodes = int(r.integers(0, 5)), int(r.integers(0, 5)), int(r.integers(1, 6))
        gt = r.integers(0, 6400, (n_gt, n_nodes, 2)) / 64.0
        pr = np.empty((n_pr, n_nodes, 2))
        for j in range(n_pr):
            pr[j] = (gt[int(r.integers(0, n_gt))] if (n_gt and r.random() < 0.75) else r.integers(0, 6400, (n_nodes, 2)) / 64.0) + r.normal(0, r.choice([0, 0.5, 3, 30]), (n_nodes, 2))
        for i_ in range(n_gt):
            if r.random() < 0.3:
                gt[i_, r.random(n_nodes) < 0.4] = np.nan
            if r.random() < 0.05:
                gt[i_] = np.nan
        if n_pr:
            pr[r.random((n_pr, n_nodes)) < 0.15] = np.nan
        scores = np.round(r.random(n_pr), int(r.choice([1, 6])))
        c.update(gt=gt, pr=pr, n_nodes=n_nodes, scores=scores, thr=float(r.choice([0, 0, 0.3, 0.9])))
    elif fam in ("hungarian", "greedy"):
        n, m = int(r.integers(1, 6)), int(r.integers(1, 6))
        q = int(r.choice([2, 4, 1000]))
        M = np.round(r.random((n, m)) * q) / q - float(r.choice([0, 1]))
        if fam == "greedy" and r.random() < 0.5:
            M[r.random((n, m)) < 0.3] = np.inf
        c.update(M=M)
    else:
        a = np.sort(r.integers(0, 50, (2, 2)), axis=0).astype(float)
        b = np.sort(r.integers(0, 50, (2, 2)), axis=0).astype(float) if r.random() < 0.8 else a.copy()
        if r.random() < 0.3:  # disjoint on both axes (diagonal neighbours), small and large gaps
            b = a + (a[1] - a[0]) + r.integers(1, int(r.choice([4, 40, 400])), 2) * r.choice([-1, 1], 2) * 1.0
            b = np.sort(np.stack([b[0], b[0] + r.integers(0, 30, 2)]), axis=0) if r.random() < 0.5 else b
        c.update(a=[a[0, 0], a[0, 1], a[1, 0], a[1, 1]], b=[b[0, 0], b[0, 1], b[1, 0], b[1, 1]])
    return c


def directed(ctx):
    # empty ground-truth frame with one prediction (DESIGN §4-C15 witness)
    yield {"i": -1, "family": "match", "gt": np.zeros((0, 2, 2)), "pr": np.array([[[1.0, 2.0], [3.0, 4.0]]]), "n_nodes": 2, "scores": np.array([0.9]), "thr": 0.0}
    yield {"i": -2, "family": "match", "gt": np.array([[[1.0, 2.0], [3.0, 4.0]]]), "pr": np.zeros((0, 2, 2)), "n_nodes": 2, "scores": np.array([]), "thr": 0.0}


def cases(ctx):
    for i in range(N[ctx.tier]):
        if i % ctx.nshards == ctx.shard:
            yield gen_case(ctx, i)


def arr(x, shape=None):
    a = x if isinstance(x, np.ndarray) else unjson_array(x)
    return a.reshape(shape) if shape is not None else a


_VIDEO = {}


def video(ctx):
    from vf import synth

    if "v" not in _VIDEO:
        _VIDEO["v"] = synth.blank_video("C15")
    return _VIDEO["v"]


def check_oks(ctx, c):
    from sleap_nn.evaluation import compute_oks

    gt, pr = arr(c["gt"]), arr(c["pr"])
    tol = 1e-12
    if c.get("f32"):  # poses as float32 arrays (what inference produces); the dyadic coordinates are exact in float32 as well
        gt, pr = gt.astype(np.float32), pr.astype(np.float32)
        tol = 1e-4
        ctx.count("oks_float32_cases")
    n_gt, n_nodes = gt.shape[:2]
    n_pr = pr.shape[0]
    stddev = c["stddev"] if np.isscalar(c["stddev"]) else arr(c["stddev"])
    scale = c["scale"] if (c["scale"] is None or np.isscalar(c["scale"])) else arr(c["scale"])
    kw = dict(stddev=stddev, use_cocoeval=c["coco"])
    r = np.random.default_rng(c["seed"])
    small = dict(c)

    def f(g, p, sc=scale):
        with np.errstate(all="ignore"):
            return compute_oks(g.copy(), p.copy(), scale=(sc.copy() if isinstance(sc, np.ndarray) else sc), **kw)

    o = f(gt, pr)
    ctx.count("oks_calls")
    if o.shape != (n_gt, n_pr):
        return ctx.violation("oks-shape", f"shape {o.shape} != ({n_gt},{n_pr})", small)
    if not np.all(np.isfinite(o)) or o.min() < 0 or o.max() > 1 + tol:
        return ctx.violation("oks-range", f"OKS outside [0,1] or non-finite: {o.tolist()}", small)
    same = f(gt, gt)
    if np.abs(np.diag(same) - 1).max() > tol:
        ctx.violation("oks-identity", f"identical poses score {np.diag(same).tolist()} != 1", small)
    # predictions at nodes missing in the ground truth are ignored (per gt row)
    for i in range(n_gt):
        miss = np.isnan(gt[i]).any(-1)
        if miss.any():
            p2 = pr.copy()
            p2[:, miss] = r.normal(0, 100, (n_pr, int(miss.sum()), gt.shape[-1])).astype(gt.dtype)
            if r.random() < 0.5:
                p2[:, miss] = np.nan
            sc = scale[i:i + 1] if isinstance(scale, np.ndarray) else scale
            a, b = f(gt[i:i + 1], pr, sc), f(gt[i:i + 1], p2, sc)
            ctx.count("missing_gt_checks")
            if not np.array_equal(a, b):
                ctx.violation("oks-missing-gt-not-ignored", f"changing predictions at nodes missing in gt {i} changed OKS {a.tolist()} -> {b.tolist()}", small)
    # a NaN predicted node scores like a node at infinity
    if np.isnan(pr).any():
        p2 = np.where(np.isnan(pr).any(-1, keepdims=True), np.inf, pr)  # "at infinity" literally: 1e15 is not far once the normaliser (area^2 of a huge 3-D pose) reaches 1e29
        b = f(gt, p2)
        ctx.count("missing_pr_checks")
        if np.abs(o - b).max() > tol:
            ctx.violation("oks-missing-pred-not-a-miss", f"NaN predicted node is not scored as a complete miss: {o.tolist()} vs far-away {b.tolist()}", small)
    # moving one predicted node farther from its target never increases the score
    for _ in range(3):
        i, j, k = int(r.integers(0, n_gt)), int(r.integers(0, n_pr)), int(r.integers(0, n_nodes))
        if np.isnan(gt[i, k]).any() or np.isnan(pr[j, k]).any():
            continue
        d = pr[j, k] - gt[i, k]
        if not d.any():
            d = np.zeros(gt.shape[-1])
            d[0] = c["unit"]
        p2 = pr.copy()
        p2[j, k] = gt[i, k] + d * float(r.choice([2, 3, 17]))
        b = f(gt, p2)
        ctx.count("monotone_checks")
        if b[i, j] > o[i, j] + tol:
            ctx.violation("oks-not-monotone", f"moving predicted node {k} farther from its target raised OKS[{i},{j}] {o[i, j]} -> {b[i, j]}", small)
    # translation (exact: dyadic coordinates, integer shift) and permutation
    t = r.integers(-500, 500, gt.shape[-1]).astype(gt.dtype)
    if c.get("f32") and r.random() < 0.5:
        t = t * 4  # ordinary image coordinates of a large frame (up to +-2000 px)
    b = f(gt + t, pr + t)
    ctx.count("translation_checks")
    if np.abs(o - b).max() > max(1e-9, tol):
        ctx.violation("oks-translation", f"translating both poses by {t.tolist()} changed OKS by {np.abs(o - b).max():.3g}", small)
    pg, pp = r.permutation(n_gt), r.permutation(n_pr)
    b = f(gt[pg], pr[pp], scale[pg] if isinstance(scale, np.ndarray) else scale)
    if not np.array_equal(o[pg][:, pp], b):
        ctx.violation("oks-permutation", "reordering instances does not permute the OKS matrix", small)
    area0 = False
    with np.errstate(all="ignore"):
        ext = np.nanmax(gt, 1) - np.nanmin(gt, 1)
        area0 = bool((ext.prod(-1) == 0).any())
    nt = np.isnan(gt).any() or np.isnan(pr).any() or area0
    return (("oks", c["cls"], c["nanp"], c["coco"], np.isscalar(stddev), type(scale).__name__, n_gt, n_pr, n_nodes) if nt else None)


def check_match(ctx, c):
    import sleap_io as sio
    from sleap_nn.evaluation import match_instances, compute_oks
    from vf import synth

    n_nodes = c["n_nodes"]
    gt, pr = arr(c["gt"], (-1, n_nodes, 2)), arr(c["pr"], (-1, n_nodes, 2))
    scores = arr(c["scores"], (-1,))
    sk = synth.skeleton(n_nodes)
    v = video(ctx)
    gts = [synth.user_instance(p, sk) for p in gt]
    prs = [synth.pred_instance(p, sk, score=s) for p, s in zip(pr, scores)]
    fg = sio.LabeledFrame(video=v, frame_idx=0, instances=gts)
    fp = sio.LabeledFrame(video=v, frame_idx=0, instances=prs)
    small = dict(c)
    try:
        with np.errstate(all="ignore"):
            pairs, fns = match_instances(fg, fp, threshold=c["thr"])
    except Exception as e:
        key = "match-raises-on-empty-gt-frame" if len(gts) == 0 and len(prs) > 0 else f"match-raises:{type(e).__name__}"
        ctx.violation(key, f"match_instances raised {type(e).__name__}: {e} for n_gt={len(gts)}, n_pr={len(prs)}", small)
        return ("match", len(gts), len(prs), "exc")
    ctx.count("match_calls")
    g_ids = [id(p[0].instance) for p in pairs]
    p_ids = [id(p[1].instance) for p in pairs]
    f_ids = [id(m.instance) for m in fns]
    known_g, known_p = {id(x) for x in gts}, {id(x) for x in prs}
    if len(set(g_ids)) != len(g_ids) or len(set(p_ids)) != len(p_ids):
        ctx.violation("match-not-one-to-one", f"an instance is used twice (gt uses {len(g_ids)}/{len(set(g_ids))}, pr uses {len(p_ids)}/{len(set(p_ids))})", small)
    if not set(g_ids) <= known_g or not set(p_ids) <= known_p or not set(f_ids) <= known_g:
        ctx.violation("match-foreign-instance", "matching returned an instance that was not in the frames", small)
    if len(pairs) + len(fns) != len(gts) or set(g_ids) & set(f_ids) or len(set(f_ids)) != len(f_ids):
        ctx.violation("match-conservation", f"|pairs|={len(pairs)} + |false negatives|={len(fns)} != n_gt={len(gts)} or the sets overlap", small)
    for g, p, oks in pairs:
        with np.errstate(all="ignore"):
            ref = compute_oks(g.instance.numpy(), p.instance.numpy())[0, 0]
        if not (oks > c["thr"]) or abs(ref - oks) > 1e-12:
            ctx.violation("match-threshold", f"pair with OKS {oks} (recomputed {ref}) accepted at threshold {c['thr']}", small)
    return ("match", len(gts), len(prs), c["thr"], len(pairs)) if len(gts) != len(prs) else None


def brute_min(M):
    n, m = M.shape
    best = np.inf
    if n <= m:
        for cols in itertools.permutations(range(m), n):
            best = min(best, sum(M[i, cols[i]] for i in range(n)))
    else:
        for rows in itertools.permutations(range(n), m):
            best = min(best, sum(M[rows[j], j] for j in range(m)))
    return best


def check_hungarian(ctx, c):
    from sleap_nn.tracking.utils import hungarian_matching

    M = arr(c["M"])
    M = M.reshape(len(c["M"]), -1) if not isinstance(c["M"], np.ndarray) else M
    rows, cols = hungarian_matching(M.copy())
    rows, cols = list(map(int, rows)), list(map(int, cols))
    ctx.count("hungarian_calls")
    small = dict(c)
    if len(set(rows)) != len(rows) or len(set(cols)) != len(cols) or len(rows) != len(cols) or len(rows) != min(M.shape):
        ctx.violation("hungarian-not-one-to-one", f"rows {rows} cols {cols} for shape {M.shape}", small)
    else:
        tot, best = sum(M[r_, c_] for r_, c_ in zip(rows, cols)), brute_min(M)
        if tot > best + 1e-9:
            ctx.violation("hungarian-not-optimal", f"total {tot} > brute-force optimum {best}", small)
    ties = len(np.unique(M)) < M.size
    return ("hungarian", M.shape, ties) if ties or M.shape[0] != M.shape[1] else None


def check_greedy(ctx, c):
    from sleap_nn.tracking.utils import greedy_matching

    M = arr(c["M"])
    M = M.reshape(len(c["M"]), -1) if not isinstance(c["M"], np.ndarray) else M
    rows, cols = greedy_matching(M.copy())
    rows, cols = list(map(int, rows)), list(map(int, cols))
    ctx.count("greedy_calls")
    small = dict(c)
    if len(set(rows)) != len(rows) or len(set(cols)) != len(cols) or len(rows) != len(cols) or len(rows) != min(M.shape):
        ctx.violation("greedy-not-one-to-one", f"rows {rows} cols {cols} for shape {M.shape}", small)
    else:
        free_r, free_c = set(range(M.shape[0])), set(range(M.shape[1]))
        for r_, c_ in zip(rows, cols):
            sub = min(M[a, b] for a in free_r for b in free_c)
            if M[r_, c_] != sub:
                ctx.violation("greedy-pick-not-minimal", f"picked ({r_},{c_}) cost {M[r_, c_]} while {sub} was available", small)
                break
            free_r.discard(r_)
            free_c.discard(c_)
    return ("greedy", M.shape, bool(np.isinf(M).any()), len(np.unique(M)) < M.size)


def check_iou(ctx, c):
    from sleap_nn.tracking.utils import compute_iou

    a, b = [float(v) for v in c["a"]], [float(v) for v in c["b"]]
    ab, ba, aa = compute_iou(a, b), compute_iou(b, a), compute_iou(a, a)
    ctx.count("iou_calls")
    small = dict(c)
    if not (0 <= ab <= 1) or not np.isfinite(ab):
        ctx.violation("iou-range", f"IoU {ab} outside [0,1]", small)
    if ab != ba:
        ctx.violation("iou-symmetry", f"IoU(a,b)={ab} != IoU(b,a)={ba}", small)
    if aa != 1:
        ctx.violation("iou-identity", f"IoU of identical boxes is {aa}", small)
    disjoint = a[2] < b[0] - 1 or b[2] < a[0] - 1 or a[3] < b[1] - 1 or b[3] < a[1] - 1
    if disjoint and ab != 0:
        ctx.violation("iou-disjoint", f"disjoint boxes have IoU {ab}", small)
    deg = a[0] == a[2] or a[1] == a[3] or b[0] == b[2] or b[1] == b[3]
    return ("iou", deg, disjoint, a == b, round(ab, 2)) if (deg or disjoint or a == b) else None


def check(ctx, case):
    fam = case["family"]
    sig = {"oks": check_oks, "match": check_match, "hungarian": check_hungarian, "greedy": check_greedy, "iou": check_iou}[fam](ctx, case)
    if sig is True:  # a violation() return value leaked through
        sig = None
    ctx.tick(sig if not isinstance(sig, bool) else None, sample=case if 0 <= case["i"] < 6 else None)


def finalize(ctx):
    if ctx.tier == "thorough" and ctx.shard == 0:  # ambient contracts while the repository's own pinned tests run
        from vf import ambient

        ambient.run_tests(ctx, "C15", ["tests/test_evaluation.py::test_compute_oks"], ["compute_oks"])
    for n in ("oks_calls", "match_calls", "hungarian_calls", "greedy_calls", "iou_calls", "monotone_checks", "missing_gt_checks", "missing_pr_checks"):
        ctx.require(n, 5)


LEVEL_TEXT = ("The real compute_oks / match_instances / hungarian_matching / greedy_matching / compute_iou are called on seeded inputs and each return value is "
              "checked against algebraic oracles (range, identity, invariances, monotonicity, conservation, brute-force optimum). Exploration of a continuous "
              "input space with exact oracles.")
LEVEL_NOTE = "Trusted: numpy and the brute-force assignment enumeration (<= 5x5). Translations exact by construction (dyadic coordinates)."
TECHNIQUE = "runtime monitoring: boundary probes with algebraic / metamorphic oracles and brute-force assignment"
