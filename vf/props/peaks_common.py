"""Shared confidence-map generators for C06 / C07 (numpy float32, shape (S, C, H, W))."""
import numpy as np

KINDS = ["uniform", "smooth", "bumps", "quantised", "constant", "signed", "border", "tiny", "scaled", "sparse"]


def smooth(a, r):
    k = np.array([1, 2, 1], float) / 4
    for _ in range(int(r.integers(1, 4))):
        a = np.apply_along_axis(lambda v: np.convolve(np.pad(v, 1, mode="edge"), k, mode="valid"), -1, a)
        a = np.apply_along_axis(lambda v: np.convolve(np.pad(v, 1, mode="edge"), k, mode="valid"), -2, a)
    return a


def gen_maps(r, kind, non_negative=False):
    if kind == "tiny":
        shp = [(1, 1), (1, int(r.integers(2, 9))), (int(r.integers(2, 9)), 1), (2, 2), (1, 2), (2, 1)][int(r.integers(0, 6))]
    else:
        hi = 25 if r.random() < 0.1 else 13
        shp = (int(r.integers(2, hi)), int(r.integers(2, hi)))
    S, C = int(r.integers(1, 5)), int(r.integers(1, 6))
    H, W = shp
    a = r.random((S, C, H, W))
    if kind == "smooth":
        a = smooth(a, r)
    elif kind == "bumps" or kind == "sparse":
        a = np.zeros((S, C, H, W))
        yy, xx = np.mgrid[0:H, 0:W]
        for s in range(S):
            for c in range(C):
                for _ in range(int(r.integers(0, 5))):
                    cx, cy = r.uniform(-1, W), r.uniform(-1, H)
                    sg = r.uniform(0.5, 2.5)
                    a[s, c] += r.uniform(0.2, 1.0) * np.exp(-((xx - cx) ** 2 + (yy - cy) ** 2) / (2 * sg * sg))
        if kind == "sparse":
            a = np.where(a > 0.5, a, 0.0)
    elif kind == "quantised":
        a = np.round(a * int(r.choice([2, 3, 4]))) / 4.0
    elif kind == "constant":
        a = np.full((S, C, H, W), float(r.choice([0.0, 0.5, 1.0, -0.3])))
        if r.random() < 0.5:  # constant except one map
            a[int(r.integers(0, S)), int(r.integers(0, C))] = r.random((H, W))
    elif kind == "signed":
        a = a * 2 - 1
        if r.random() < 0.5:
            a = smooth(a, r)
    elif kind == "border":
        a = a * 0.5
        for s in range(S):
            for c in range(C):
                for _ in range(int(r.integers(1, 4))):
                    y = int(r.choice([0, H - 1, r.integers(0, H)]))
                    x = int(r.choice([0, W - 1])) if 0 < y < H - 1 else int(r.choice([0, W - 1, r.integers(0, W)]))
                    a[s, c, y, x] = r.choice([0.9, 1.0, 1.0])
    elif kind == "scaled":
        a = (a - 0.3) * float(r.choice([10, 50, 100]))
    if non_negative:
        a = np.abs(a)
    return a.astype(np.float32)


def brute_local_peaks(a, thr):
    """Strict local maxima above thr over existing 8-neighbours. Returns set of (s,c,y,x)."""
    S, C, H, W = a.shape
    pad = np.full((S, C, H + 2, W + 2), -np.inf, dtype=np.float64)
    pad[:, :, 1:-1, 1:-1] = a
    centre = pad[:, :, 1:-1, 1:-1]
    ok = centre > thr
    for dy in (-1, 0, 1):
        for dx in (-1, 0, 1):
            if dy == 0 and dx == 0:
                continue
            ok &= centre > pad[:, :, 1 + dy:H + 1 + dy, 1 + dx:W + 1 + dx]
    return set(map(tuple, np.argwhere(ok).tolist()))


def patch_signs(a2d, x, y, p):
    """Signs present in the (p+2)^2 window around (x, y) of a 2-D map (zero padding ignored)."""
    h = p // 2 + 1
    H, W = a2d.shape
    win = a2d[max(0, y - h):min(H, y + h + 1), max(0, x - h):min(W, x + h + 1)]
    return bool((win > 0).any()), bool((win < 0).any())
