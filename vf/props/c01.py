"""C01 — confidence-map targets vs an independent float64 Gaussian-on-grid model.

Events: return values of generate_confmaps / generate_multiconfmaps (plain, centroid)
and the examples yielded by ConfidenceMapGenerator / MultiConfidenceMapGenerator.
"""
import numpy as np

from vf.core import unjson_array
from vf.refmodels import maps as ref

LEVEL = "exploration"
RULE = ("seeded generator over variant x stride{1,2,4,8,16} x grid 2..12(24) cells x sigma[0.3,5] x 0-5 animals x 1-6 nodes x "
        "position classes (inside, on-cell, half-cell tie, border 0/W-1/W, <=20px outside, +-1e6, +-inf) x NaN patterns; "
        "non-trivial = >=1 visible keypoint inside the image and non-zero output; distinct by "
        "(variant, stride, grid shape, NaN class, position classes)")
ASSUMPTIONS = ["inputs are float32 tensors as the data pipeline produces them; reference evaluated on the float32-rounded coordinates",
               "image sides are multiples of the stride (H/stride unambiguous)",
               "animals beyond num_instances are NaN padding (as process_lf produces)"]
SHARDS = {"quick": 4, "thorough": 16}
N = {"quick": 2700, "thorough": 3600000}
BUDGET = {"quick": 100, "thorough": 600}
TIMEOUT = {"quick": 600, "thorough": 2400}
SELF_SHARDED = True
VARIANTS = ["single", "single4d", "multi", "centroid", "dp_single", "dp_multi", "dp_centroid"]
POS = ["inside", "oncell", "half", "border", "outside", "far", "inf"]


def gen_point(r, H, W, s, cls):
    if cls == "inside":
        return [r.uniform(0, W - 1), r.uniform(0, H - 1)]
    if cls == "oncell":
        return [float(s * r.integers(0, W // s)), float(s * r.integers(0, H // s))]
    if cls == "half":
        return [float(s * r.integers(0, W // s) + s / 2.0), float(s * r.integers(0, H // s) + (s / 2.0 if r.random() < 0.5 else 0))]
    if cls == "border":
        return [float(r.choice([0, W - 1, W, r.uniform(0, W)])), float(r.choice([0, H - 1, H, r.uniform(0, H)]))]
    if cls == "outside":
        x = r.uniform(-20, W + 20)
        y = r.choice([r.uniform(-20, 0), r.uniform(H, H + 20)])
        return [x, y] if r.random() < 0.5 else [float(r.choice([r.uniform(-20, 0), r.uniform(W, W + 20)])), r.uniform(-20, H + 20)]
    if cls == "far":
        return [float(r.choice([-1e6, 1e6, r.uniform(0, W)])), float(r.choice([-1e6, 1e6]))]
    if cls == "inf":
        return [float(r.choice([np.inf, -np.inf, r.uniform(0, W)])), float(r.choice([np.inf, -np.inf]))]
    raise ValueError(cls)


def gen_case(ctx, i):
    r = ctx.rng(1, i)
    variant = VARIANTS[i % len(VARIANTS)]
    s = int(r.choice([1, 2, 4, 8, 16]))
    hi = 25 if r.random() < 0.1 else 13
    H, W = int(s * r.integers(2, hi)), int(s * r.integers(2, hi))
    if i % 40 == 9:  # a very tall or very wide frame (beyond 4096 px on one side, a few cells on the other)
        s = int(r.choice([8, 16]))
        long_, short_ = int(s * r.integers(4100 // s + 1, 4400 // s)), int(s * r.integers(2, 5))
        H, W = (long_, short_) if r.random() < 0.5 else (short_, long_)
    sigma = float(np.exp(r.uniform(np.log(0.3), np.log(5.0))))
    n_nodes = int(r.integers(1, 7))
    n_an = int(r.integers(0, 6))
    if i % 25 == 3 and variant in ("multi", "centroid", "dp_multi", "dp_centroid"):  # a crowded frame: 65-150 animals (not a multiple of a block size)
        n_an, n_nodes = int(r.integers(65, 151)), int(r.integers(1, 3))
    if variant in ("single", "single4d", "dp_single"):
        n_an = max(n_an, 1)
    nan_class = str(r.choice(["none", "none", "some_nodes", "whole_animal", "only_x_or_y", "all"]))
    pts = []
    classes = set()
    for a in range(n_an):
        row = []
        mix = r.random() < 0.5
        c0 = str(r.choice(POS, p=[0.4, 0.15, 0.1, 0.15, 0.1, 0.05, 0.05]))
        for k in range(n_nodes):
            c = str(r.choice(POS, p=[0.4, 0.15, 0.1, 0.15, 0.1, 0.05, 0.05])) if mix else c0
            classes.add(c)
            row.append(gen_point(r, H, W, s, c))
        pts.append(row)
    pts = np.array(pts, dtype=np.float64).reshape(n_an, n_nodes, 2)
    if n_an:
        if nan_class == "some_nodes":
            m = r.random((n_an, n_nodes)) < 0.4
            pts[m] = np.nan
        elif nan_class == "whole_animal":
            pts[int(r.integers(0, n_an))] = np.nan
        elif nan_class == "only_x_or_y":
            m = r.random((n_an, n_nodes)) < 0.4
            ax = r.integers(0, 2, size=(n_an, n_nodes))
            for a in range(n_an):
                for k in range(n_nodes):
                    if m[a, k]:
                        pts[a, k, ax[a, k]] = np.nan
        elif nan_class == "all":
            pts[:] = np.nan
    n_pad = int(r.integers(0, 3)) if variant in ("multi", "centroid", "dp_centroid", "dp_multi") else 0
    return {"i": i, "n_nodes": n_nodes, "variant": variant, "H": H, "W": W, "stride": s, "sigma": sigma, "points": pts,
            "n_pad": n_pad, "nan_class": nan_class, "classes": sorted(classes)}


def directed(ctx):
    # the repository's own docstring-sized example, plus half-cell ties and border lines
    base = {"n_pad": 0, "nan_class": "none", "classes": ["directed"]}
    yield dict(base, i=-1, n_nodes=2, variant="single", H=16, W=32, stride=2, sigma=1.5, points=np.array([[[5.0, 7.0], [31.0, 15.0]]]))
    yield dict(base, i=-2, n_nodes=1, variant="multi", H=16, W=16, stride=4, sigma=1.0, points=np.array([[[6.0, 6.0]], [[np.nan, 3.0]]]), n_pad=1)
    yield dict(base, i=-3, n_nodes=1, variant="centroid", H=32, W=16, stride=8, sigma=0.5, points=np.array([[[4.0, 12.0]], [[16.0, 32.0]]]))


def cases(ctx):
    for i in range(N[ctx.tier]):
        if i % ctx.nshards == ctx.shard:
            yield gen_case(ctx, i)


def call_real(case, pts32):
    """Invoke the real function of the variant; returns (maps ndarray list per sample, expected n_channels)."""
    import torch
    from sleap_nn.data import confidence_maps as cm

    v = case["variant"]
    H, W, s, sigma = case["H"], case["W"], case["stride"], case["sigma"]
    t = torch.from_numpy(pts32)
    n_an, n_nodes = pts32.shape[:2]
    if v == "single":  # (n_samples, n_nodes, 2): each animal is a sample
        out = cm.generate_confmaps(t.clone(), (H, W), sigma=sigma, output_stride=s)
        return out, "single"
    if v == "single4d":  # (1, n_inst, n_nodes, 2) flattened to n_inst*n_nodes channels
        out = cm.generate_confmaps(t.clone().unsqueeze(0), (H, W), sigma=sigma, output_stride=s)
        return out, "single4d"
    pad = np.full((case["n_pad"], n_nodes, 2), np.nan, dtype=np.float32)
    full = torch.from_numpy(np.concatenate([pts32, pad], axis=0)).unsqueeze(0)  # (1, n_inst, n_nodes, 2)
    if v == "multi":
        out = cm.generate_multiconfmaps(full, (H, W), num_instances=n_an, sigma=sigma, output_stride=s, is_centroids=False)
        return out, "multi"
    if v == "centroid":
        cent = full[:, :, 0, :]  # (1, n_inst, 2)
        out = cm.generate_multiconfmaps(cent, (H, W), num_instances=n_an, sigma=sigma, output_stride=s, is_centroids=True)
        return out, "centroid"
    # DataPipe variants: one pipe object is fed a *stream* [warm-up, example, warm-up] whose items differ in
    # image size and keypoints (mixed-resolution videos), so state kept from an earlier item shows in a later one
    H2, W2, w32 = warm_example(case, pts32)
    wfull = torch.from_numpy(np.concatenate([w32, pad], axis=0)).unsqueeze(0)

    def mk(hh, ww, tt, ff):
        im = torch.zeros((1, 1, hh, ww))
        if v == "dp_single":
            return {"image": im, "instances": tt.clone().unsqueeze(0)}
        if v == "dp_multi":
            return {"image": im, "instances": ff.clone(), "num_instances": n_an}
        return {"image": im, "centroids": ff[:, :, 0, :].clone(), "num_instances": n_an}

    stream = [mk(H2, W2, torch.from_numpy(w32), wfull), mk(H, W, t, full), mk(H2, W2, torch.from_numpy(w32), wfull)]
    if v == "dp_single":
        res = list(cm.ConfidenceMapGenerator(stream, sigma=sigma, output_stride=s))
        key, kind = "confidence_maps", "single4d"
    elif v == "dp_multi":
        res = list(cm.MultiConfidenceMapGenerator(stream, sigma=sigma, output_stride=s, centroids=False))
        key, kind = "confidence_maps", "multi"
    elif v == "dp_centroid":
        res = list(cm.MultiConfidenceMapGenerator(stream, sigma=sigma, output_stride=s, centroids=True))
        key, kind = "centroids_confidence_maps", "centroid"
    else:
        raise ValueError(v)
    case["_stream"] = [res[0][key], res[2][key]] if len(res) == 3 else None
    case["_stream_len"] = len(res)
    return res[1][key], kind


def warm_example(case, pts32):
    """A second example of another image size (same stride) with shifted keypoints."""
    s = case["stride"]
    i = abs(int(case.get("i") or 0))
    H2 = s * (case["H"] // s + 1 + i % 3)
    W2 = s * max(2, case["W"] // s - 1 - i % 2)
    return H2, W2, (pts32 + np.float32(1.5 * s)).astype(np.float32)


def expected(kind, p64, n_nodes, H, W, s, sigma):
    gh, gw = H // s, W // s
    if kind == "single":
        return np.stack([ref.confmap_single(p, H, W, s, sigma) for p in p64]) if len(p64) else np.zeros((0, n_nodes, gh, gw))
    if kind == "single4d":
        return ref.confmap_single(p64.reshape(-1, 2), H, W, s, sigma)[None]
    if kind == "multi":
        return ref.confmap_multi(p64, H, W, s, sigma)[None]
    return ref.confmap_multi(p64[:, :1], H, W, s, sigma)[None]


def check(ctx, case):
    pts = case["points"] if isinstance(case["points"], np.ndarray) else unjson_array(case["points"])
    pts = pts.reshape(-1, case["n_nodes"], 2)
    H, W, s, sigma = case["H"], case["W"], case["stride"], case["sigma"]
    pts32 = pts.astype(np.float32)
    p64 = pts32.astype(np.float64)
    n_an, n_nodes = p64.shape[:2]
    out, kind = call_real(case, pts32)
    ctx.count("real_calls:" + case["variant"])
    got = out.detach().numpy().astype(np.float64)
    gh, gw = H // s, W // s
    exp = expected(kind, p64, n_nodes, H, W, s, sigma)
    small = {k: case[k] for k in ("variant", "H", "W", "stride", "sigma", "n_pad", "n_nodes", "nan_class", "classes")}
    small["points"] = pts
    small["i"] = case.get("i")
    if case["variant"].startswith("dp_"):  # the other items of the stream fed to the same pipe object
        H2, W2, w32 = warm_example(case, pts32)
        wexp = expected(kind, w32.astype(np.float64), n_nodes, H2, W2, s, sigma)
        if case.get("_stream_len") != 3:
            ctx.violation("stream-length", f"{case['variant']}: a stream of 3 examples yielded {case.get('_stream_len')}", small)
        else:
            for pos, o in zip((0, 2), case["_stream"]):
                g = o.detach().numpy().astype(np.float64)
                ctx.count("stream_items")
                if g.shape != wexp.shape:
                    ctx.violation("stream-shape", f"{case['variant']}: stream item {pos} ({H2}x{W2}) has shape {g.shape} != {wexp.shape}", small)
                elif not np.all(np.isfinite(g)) or np.abs(g - wexp).max() > 1e-5 + 1e-4:
                    ctx.violation("stream-value", f"{case['variant']}: stream item {pos} ({H2}x{W2}) differs from the reference by {np.nanmax(np.abs(g - wexp)):.3g}", small)
    if got.shape != exp.shape:
        ctx.violation("shape", f"{case['variant']}: shape {got.shape} != expected {exp.shape} (nodes,H/s,W/s)", small)
        ctx.tick()
        return
    if not np.all(np.isfinite(got)):
        ctx.violation("non-finite", f"{case['variant']}: output has NaN/Inf", small)
    elif got.min() < 0 or got.max() > 1 + 1e-6:
        ctx.violation("range", f"{case['variant']}: values outside [0,1]: [{got.min()},{got.max()}]", small)
    else:
        err = np.abs(got - exp)
        bad = err > (1e-5 + 1e-4 * np.abs(exp))
        if bad.any():
            j = np.unravel_index(np.argmax(err), err.shape)
            ctx.violation("value", f"{case['variant']}: |got-ref|={err[j]:.3g} at {j} (got {got[j]:.6g}, ref {exp[j]:.6g}) stride={s} sigma={sigma:.3g}", small)
        else:
            # missing keypoint => all-zero channel when it is the only contributor (exactly 0)
            zero_ref = (exp.reshape(exp.shape[0], exp.shape[1], -1).max(-1) == 0)
            nz = got.reshape(got.shape[0], got.shape[1], -1).max(-1) != 0
            if (zero_ref & nz).any():
                ctx.violation("missing-not-zero", f"{case['variant']}: channel without a visible keypoint is not exactly 0", small)
            # argmax is *a* grid cell nearest to the keypoint (single-animal channels)
            if kind in ("single", "single4d"):
                flat = p64 if kind == "single" else p64.reshape(1, -1, 2)
                xv, yv = ref.grid(W, s), ref.grid(H, s)
                for a in range(got.shape[0]):
                    for k in range(got.shape[1]):
                        x, y = flat[a, k]
                        if not (np.isfinite(x) and np.isfinite(y)) or got[a, k].max() <= 1e-30:
                            continue
                        iy, ix = np.unravel_index(np.argmax(got[a, k]), got[a, k].shape)
                        d = np.hypot(xv[ix] - x, yv[iy] - y)
                        dmin = np.sqrt(np.min((xv[None] - x) ** 2 + (yv[:, None] - y) ** 2))
                        ctx.count("argmax_checks")
                        if d > dmin + 1e-3 * max(1.0, s):
                            ctx.violation("argmax", f"argmax cell ({ix},{iy}) at distance {d:.4f} but nearest cell is at {dmin:.4f}", small)
    vis_inside = np.isfinite(p64).all(-1) & (p64[..., 0] >= 0) & (p64[..., 0] <= W - 1) & (p64[..., 1] >= 0) & (p64[..., 1] <= H - 1)
    nontrivial = bool(vis_inside.any()) and got.size > 0 and got.max() > 0
    sig = (case["variant"], s, gh, gw, case["nan_class"], tuple(case["classes"])) if nontrivial else None
    ctx.tick(sig, sample=small if case.get("i", 0) in (0, 1, 2, 3) else None)


def finalize(ctx):
    if ctx.tier == "thorough" and ctx.shard == 0:  # ambient contracts while the repository's own pinned tests run
        from vf import ambient

        ambient.run_tests(ctx, "C01", ["tests/data/test_confmaps.py", "tests/data/test_get_data_chunks.py"], ["generate_confmaps", "generate_multiconfmaps"])
    for v in VARIANTS:
        ctx.require("real_calls:" + v, 1)
    ctx.require("stream_items", 2)

LEVEL_TEXT = ("Every call of the real confidence-map generators (functional and DataPipe, single/multi/centroid) on seeded hostile inputs is "
              "compared cell-by-cell with an independent float64 Gaussian-on-grid model; held = no disagreement on the cases observed. "
              "Exploration is the right level: the input space is continuous, the oracle is exact.")
LEVEL_NOTE = "Trusted: the float64 reference model (vf/refmodels/maps.py, 15 lines) and numpy; inputs restricted to float32 tensors with sides divisible by the stride."
TECHNIQUE = "runtime monitoring: boundary probe + reference-model oracle over seeded inputs"
