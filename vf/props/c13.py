"""C13 — frame readers deliver each frame once, in order, and always end the stream.

Real VideoReader / LabelsReader threads + the real Predictor._predict_generator (driven by a
minimal concrete Predictor with an echo model) around a LoggedQueue; schedules are perturbed by
sys.monitoring LINE callbacks; read faults are injected at every index; an offline checker
decides the recorded history; hangs are decided logically (thread parked in Queue.get/put)."""
import hashlib
import threading
import time

import numpy as np

LEVEL = "exploration"
RULE = ("histories = (reader kind {VideoReader, LabelsReader over two videos of different size}) x N<=12 frames x (start,end) ranges incl. empty/single x queue capacity 1-8 x "
        "batch 1-5 x schedule regime {producer-slow, consumer-slow, balanced, free} with seeded sleeps injected at statement starts of run()/_predict_generator x read fault "
        "{none, exception at index k, wrong-rank frame at index k} for every k (enumerated round-robin); non-trivial = run in which the queue was observed full and empty, or "
        "with an injected fault; distinct by (configuration, put/get interleaving string)")
ASSUMPTIONS = ["the source is a raw HDF5 video (contiguous frames); faults are injected by a proxy around the real sio.Video / sio.Labels",
               "the echo model stands in for the network (the property is about the reader/consumer protocol)",
               "a hang is decided logically: producer finished and queue empty and consumer parked in Queue.get on 3 consecutive polls (or the mirror state); watchdog expiry otherwise is inconclusive"]
SHARDS = {"quick": 8, "thorough": 16}
N = {"quick": 2400, "thorough": 480000}
BUDGET = {"quick": 100, "thorough": 600}
TIMEOUT = {"quick": 600, "thorough": 3000}
SELF_SHARDED = True
REGIMES = {"producer-slow": (0.35, 0.0), "consumer-slow": (0.0, 0.35), "balanced": (0.15, 0.15), "free": (0.0, 0.0)}
_STATE = {}


def setup(ctx):
    import sleap_io as sio
    from vf import synth

    d = synth.workdir("C13")
    vids = {}
    for name, (n, H, W) in {"a": (12, 8, 10), "b": (6, 6, 12)}.items():
        frames = np.zeros((n, H, W, 1), np.uint8)
        for i in range(n):
            frames[i] = 10 * i + (1 if name == "a" else 5)
        p = synth.write_h5_video(f"{d}/{name}.h5", frames)
        vids[name] = sio.load_video(p)
    sk = synth.skeleton(2)
    lfs = []
    order = [("a", 3), ("b", 0), ("a", 0), ("b", 4), ("a", 7), ("a", 8), ("b", 2), ("a", 11), ("b", 5), ("a", 5)]
    for vn, fi in order:
        lfs.append(sio.LabeledFrame(video=vids[vn], frame_idx=fi, instances=[synth.user_instance([[1.0, 1.0], [3.0, 2.0]], sk)]))
    labels = sio.Labels(lfs)
    # the same two videos once more, stored as two datasets of ONE HDF5 file (the embedded-project layout: both report the same filename)
    import h5py

    shared = f"{d}/shared.h5"
    with h5py.File(shared, "w") as f:
        for name, (n, H, W) in {"a": (12, 8, 10), "b": (6, 6, 12)}.items():
            fr = np.zeros((n, H, W, 1), np.uint8)
            for i in range(n):
                fr[i] = 10 * i + (1 if name == "a" else 5)
            f.create_dataset("video_" + name, data=fr)
    svids = {name: sio.load_video(shared, dataset="video_" + name) for name in ("a", "b")}
    slfs = [sio.LabeledFrame(video=svids[vn], frame_idx=fi, instances=[synth.user_instance([[1.0, 1.0], [3.0, 2.0]], sk)]) for vn, fi in order]
    _STATE.update(svids=svids, slfs=slfs)
    _STATE.update(vids=vids, labels=labels, lfs=list(labels.labeled_frames))
    _STATE["sigs"] = set()


class FaultyVideo:
    def __init__(self, video, k, mode):
        self.video, self.k, self.mode = video, k, mode
        self.shape = video.shape

    def __getitem__(self, idx):
        if idx == self.k:
            if self.mode == "exc":
                raise IOError(f"injected read failure at frame {idx}")
            return np.zeros((4, 4), np.uint8)  # corrupt frame of the wrong rank
        return self.video[idx]


class _FaultyLF:
    def __init__(self, lf, mode):
        self.lf, self.mode = lf, mode
        self.frame_idx, self.video, self.instances = lf.frame_idx, lf.video, lf.instances

    @property
    def image(self):
        if self.mode == "exc":
            raise IOError("injected read failure")
        return np.zeros((4, 4), np.uint8)

    def __iter__(self):
        return iter(self.lf)


class FaultyLabels:
    def __init__(self, labels, n, k, mode):
        self.labels, self.n, self.k, self.mode = labels, n, k, mode
        self.videos = labels.videos

    def __len__(self):
        return self.n

    def __iter__(self):
        return iter(self.labels.labeled_frames[: self.n])

    def __getitem__(self, idx):
        lf = self.labels[idx]
        if idx == self.k:
            return _FaultyLF(lf, self.mode)
        return lf


def gen_case(ctx, i):
    r = ctx.rng(13, i)
    kind = "video" if i % 2 == 0 else "labels"
    cap = int(r.integers(1, 9))
    batch = int(r.integers(1, 6))
    regime = list(REGIMES)[int(r.integers(0, 4))]
    if kind == "video":
        n = 12
        mode = int(r.integers(0, 6))
        if mode == 0:
            start, end = None, None
        elif mode == 1:
            s = int(r.integers(0, n + 1))
            start, end = s, s  # empty
        elif mode == 2:
            s = int(r.integers(0, n))
            start, end = s, s + 1  # single
        else:
            start = int(r.integers(0, n))
            end = int(r.integers(start, n + 1))
    else:
        n = int(r.integers(1, 10))
        start, end = 0, n
    s0, e0 = (0 if start is None else start), (n if end is None else end)
    fault = None
    f_sel = (i // 2) % 3
    if f_sel and e0 > s0:
        k = s0 + (i // 6) % (e0 - s0)  # round-robin over every index of the range
        fault = ["exc" if f_sel == 1 else "rank", int(k)]
    return {"i": i, "kind": kind, "cap": cap, "batch": batch, "regime": regime, "start": start, "end": end, "n": n, "fault": fault, "instances_key": bool(kind == "labels" and r.random() < 0.3), "rot": int(r.integers(0, 2)) if kind == "labels" else 0, "shared_file": bool(kind == "labels" and r.random() < 0.3),
            "via_from_filename": bool(r.random() < 0.2 and fault is None), "sched_seed": int(r.integers(0, 2 ** 31))}


def directed(ctx):
    yield {"i": -1, "kind": "video", "cap": 1, "batch": 3, "regime": "consumer-slow", "start": None, "end": None, "n": 12, "fault": None, "via_from_filename": False, "sched_seed": 1}
    yield {"i": -2, "kind": "video", "cap": 2, "batch": 4, "regime": "producer-slow", "start": 2, "end": 9, "n": 12, "fault": ["exc", 5], "via_from_filename": False, "sched_seed": 2}
    yield {"i": -3, "kind": "labels", "cap": 1, "batch": 2, "regime": "balanced", "start": 0, "end": 10, "n": 10, "fault": ["rank", 0], "via_from_filename": False, "sched_seed": 3}
    yield {"i": -4, "kind": "video", "cap": 8, "batch": 5, "regime": "free", "start": 4, "end": 4, "n": 12, "fault": None, "via_from_filename": True, "sched_seed": 4}
    # the consumer's first batch takes 6.5 s while the reader sits on a full one-slot buffer: nothing may be dropped, however long a put has to wait
    yield {"i": -5, "kind": "video", "cap": 1, "batch": 2, "regime": "free", "start": None, "end": None, "n": 12, "fault": None, "via_from_filename": False, "sched_seed": 5, "stall": 6.5}
    yield {"i": -6, "kind": "labels", "cap": 2, "batch": 1, "regime": "free", "start": 0, "end": 9, "n": 9, "fault": None, "via_from_filename": False, "sched_seed": 6, "stall": 6.5}


def cases(ctx):
    for i in range(N[ctx.tier]):
        if i % ctx.nshards == ctx.shard:
            yield gen_case(ctx, i)


def build(case):
    """Create (reader thread, predictor, queue, expected sequence)."""
    import attrs
    import torch
    from sleap_nn.data import providers
    from sleap_nn.inference.predictors import Predictor
    from vf.schedule import LoggedQueue

    if "Echo" not in _STATE:
        ns = {}
        for name in getattr(Predictor, "__abstractmethods__", ()):
            attr = getattr(Predictor, name)
            if isinstance(attr, property):
                ns[name] = property(lambda self: None)
            else:
                def stub(self, *a, **k):
                    raise NotImplementedError
                ns[name] = stub
        EchoPredictor = attrs.define(type("EchoPredictor", (Predictor,), ns))
        _STATE["Echo"] = EchoPredictor

    stall = {"left": float(case.get("stall") or 0.0)}

    def echo(ex):
        if stall["left"]:  # a slow first batch (model set-up): the reader fills the queue and waits on a full buffer for several seconds
            import time as _t

            _t.sleep(stall["left"])
            stall["left"] = 0.0
        return [{"frame_idx": ex["frame_idx"].clone(), "video_idx": ex["video_idx"].clone(), "orig_size": ex["orig_size"].clone(),
                 "code": (ex["image"].flatten(1).amax(1) * 255).round().to(torch.int32)}]

    q = LoggedQueue(case["cap"])
    vids, labels = _STATE["vids"], _STATE["labels"]
    fault = case["fault"]
    if case["kind"] == "video":
        v = vids["a"]
        s0 = 0 if case["start"] is None else case["start"]
        e0 = v.shape[0] if case["end"] is None else case["end"]
        src = FaultyVideo(v, fault[1], fault[0]) if fault else v
        if case["via_from_filename"]:
            orig_q = providers.Queue
            providers.Queue = LoggedQueue
            try:
                reader = providers.VideoReader.from_filename(v.filename, queue_maxsize=case["cap"], start_idx=case["start"], end_idx=case["end"])
            finally:
                providers.Queue = orig_q
            q = reader.frame_buffer
        else:
            reader = providers.VideoReader(src, q, case["start"], case["end"])
        stop = fault[1] if fault else e0
        expected = [(i, 0, (8, 10), 10 * i + 1) for i in range(s0, min(e0, stop))]
        mh = mw = None
    else:
        n = case["n"]
        import sleap_io as sio

        # successive readers in this process see label sets that share the Video objects at different positions of labels.videos
        rot = int(case.get("rot") or 0)
        sel = (_STATE["slfs"] if case.get("shared_file") else _STATE["lfs"])[rot: rot + n]
        vids = _STATE["svids"] if case.get("shared_file") else vids
        sub = sio.Labels(sel)
        src = FaultyLabels(sub, n, fault[1], fault[0]) if fault else sub
        reader = providers.LabelsReader(src, q, instances_key=bool(case.get("instances_key")))
        stop = fault[1] if fault else n
        expected = []
        for lf in sel[:stop]:
            name = "a" if lf.video is vids["a"] else "b"
            vi = sub.videos.index(lf.video)
            expected.append((lf.frame_idx, vi, (8, 10) if name == "a" else (6, 12), 10 * lf.frame_idx + (1 if name == "a" else 5)))
        mh, mw = 8, 12
    pred = _STATE["Echo"](preprocess=True, preprocess_config={"batch_size": case["batch"], "scale": 1.0, "is_rgb": False, "max_stride": 1,
                                                                "max_height": mh, "max_width": mw},
                          pipeline=reader, inference_model=echo, instances_key=bool(case.get("instances_key")))
    return reader, pred, q, expected


def run_history(ctx, case):
    from sleap_nn.data import providers
    from sleap_nn.inference.predictors import Predictor
    from vf.schedule import Perturber, thread_in_queue_wait, thread_in_join

    reader, pred, q, expected = build(case)
    result = {"outs": None, "exc": None}

    def consume():
        try:
            result["outs"] = list(pred._predict_generator())
        except BaseException as e:  # noqa
            result["exc"] = e

    consumer = threading.Thread(target=consume, name="vf-consumer")
    pp, pc = REGIMES[case["regime"]]
    codes = [providers.VideoReader.run.__code__, providers.LabelsReader.run.__code__, Predictor._predict_generator.__code__]
    verdict = {"deadlock": None, "watchdog": False}
    with Perturber(codes, case["sched_seed"], pp, pc, is_producer=lambda t: isinstance(t, (providers.VideoReader, providers.LabelsReader))) as pert:
        consumer.start()
        t0 = time.time()
        streak = 0
        while consumer.is_alive():
            consumer.join(0.01)
            if not consumer.is_alive():
                break
            producer_done = reader.ident is not None and not reader.is_alive()
            if producer_done and q.qsize() == 0 and thread_in_queue_wait(consumer, ("get",)):
                streak += 1
                if streak >= 3:
                    verdict["deadlock"] = "consumer parked in Queue.get after the producer finished with an empty queue"
                    q.put({"image": None, "frame_idx": None, "video_idx": None, "orig_size": None})  # release the thread
                    consumer.join(5)
                    break
            elif reader.is_alive() and thread_in_join(consumer) and thread_in_queue_wait(reader, ("put",)):
                streak += 1
                if streak >= 3:
                    verdict["deadlock"] = "consumer stopped reading and waits in Thread.join while the reader is parked in Queue.put (wait-for cycle)"
                    try:
                        while True:
                            q.get_nowait()  # release the reader
                    except Exception:
                        pass
                    consumer.join(5)
                    break
            else:
                streak = 0
            if time.time() - t0 > 10 + float(case.get("stall") or 0.0):
                verdict["watchdog"] = True
                q.put({"image": None, "frame_idx": None, "video_idx": None, "orig_size": None})
                consumer.join(5)
                break
        reader_alive = False
        if reader.ident is not None:
            reader.join(2.0)
            reader_alive = reader.is_alive()
            if reader_alive:
                where = thread_in_queue_wait(reader, ("put",))
                verdict["producer_stuck"] = where or "alive"
                try:
                    while True:
                        q.get_nowait()
                except Exception:
                    pass
                reader.join(2.0)
        lines, inj = pert.lines, pert.injections
    return expected, q, result, verdict, reader_alive, lines, inj


def check(ctx, case):
    expected, q, result, verdict, reader_alive, lines, inj = run_history(ctx, case)
    ctx.count("histories")
    ctx.count("monitored_lines", lines)
    ctx.count("injected_delays", inj)
    ctx.count("queue_events", len(q.events))
    small = dict(case)
    cfg = (case["kind"], case["cap"], case["batch"], case["start"], case["end"], tuple(case["fault"]) if case["fault"] else None, bool(case.get("instances_key")), bool(case.get("shared_file")))
    if verdict["watchdog"]:
        ctx.note_inconclusive(f"watchdog expired in an undecided state for {cfg}")
        ctx.tick()
        if ctx.counters["inconclusive_cases"] >= 3:
            ctx.budget_s = 0  # stop this shard: repeated undecided hangs
        return
    if verdict["deadlock"]:
        ctx.violation("inference-hangs", f"{verdict['deadlock']} ({cfg})", small)
        ctx.tick((cfg, "deadlock"))
        return  # the monitor released the threads itself; the rest of the history is not the program's
    if verdict.get("producer_stuck"):
        ctx.violation("reader-thread-not-finished", f"reader thread still alive after the consumer ended ({verdict['producer_stuck']}) ({cfg})", small)
    if result["exc"] is not None:
        ctx.violation(f"consumer-exception:{type(result['exc']).__name__}", f"_predict_generator raised {type(result['exc']).__name__}: {result['exc']} ({cfg})", small)
    # ---- offline history checker over the queue-boundary log
    puts = [e for e in q.events if e[1] == "P" and e[2] != "MainThread"]
    gets = [e for e in q.events if e[1] == "G" and e[2] == "vf-consumer"]
    items = q.items

    def describe(ev):
        it = items[ev[3]]
        if it.get("image") is None:
            return "MARK"
        return (int(it["frame_idx"]), int(it["video_idx"]), tuple(int(v) for v in it["orig_size"].tolist()))

    put_seq = [describe(e) for e in puts]
    exp_seq = [(a, b, c) for a, b, c, _ in expected]
    frames_put = [p for p in put_seq if p != "MARK"]
    n_mark = put_seq.count("MARK")
    if n_mark == 0:
        ctx.violation("marker-missing", f"stream not closed by an end-of-stream marker; puts={put_seq[-4:]} ({cfg})", small)
    elif n_mark > 1:
        ctx.violation("marker-twice", f"{n_mark} end-of-stream markers ({cfg})", small)
    elif put_seq[-1] != "MARK":
        ctx.violation("frames-after-marker", f"items were put after the marker ({cfg})", small)
    if frames_put != exp_seq:
        if len(frames_put) < len(exp_seq) and frames_put == exp_seq[: len(frames_put)]:
            key = "lost-frames"
        elif sorted(frames_put) == sorted(exp_seq):
            key = "out-of-order"
        elif len(set(frames_put)) < len(frames_put):
            key = "duplicate-frame"
        else:
            key = "wrong-frames"
        ctx.violation(key, f"frames put {frames_put[:14]} != expected {exp_seq[:14]} ({cfg})", small)
    if not verdict["deadlock"] and [e[3] for e in gets] != [e[3] for e in puts][: len(gets)]:
        ctx.violation("fifo-broken", f"gets are not the puts in order ({cfg})", small)
    # ---- yielded records partition the sequence in order into batches
    if result["outs"] is not None and not verdict["deadlock"]:
        got = []
        sizes = []
        for o in result["outs"]:
            fi, vi, osz, code = o["frame_idx"], o["video_idx"], o["orig_size"], o["code"]
            sizes.append(len(fi))
            for j in range(len(fi)):
                got.append((int(fi[j]), int(vi[j]), tuple(int(v) for v in np.asarray(osz[j]).reshape(-1)), int(code[j])))
        ctx.count("records_yielded", len(got))
        if got != expected:
            key = "consumer-drops-or-reorders" if [g[:1] for g in got] != [e[:1] for e in expected] else "index-size-or-content-mismatch"
            ctx.violation(key, f"yielded (frame, video, size, pixel code) {got[:10]} != expected {expected[:10]} ({cfg})", small)
        b = case["batch"]
        want = [b] * (len(expected) // b) + ([len(expected) % b] if len(expected) % b else [])
        if sizes == want:
            ctx.count("histories_with_canonical_batching")  # informational: batch sizes are not part of the property
    sig = q.signature()
    full_and_empty = q.saw_full > 0 and q.saw_empty > 0
    if q.saw_full:
        ctx.count("histories_queue_full")
    if q.saw_empty:
        ctx.count("histories_queue_empty")
    h = hashlib.sha1(sig.encode()).hexdigest()[:10]
    _STATE["sigs"].add((cfg[:3], h))
    nt = full_and_empty or case["fault"] is not None
    ctx.tick((cfg, h) if nt else None, sample={"case": small, "interleaving": sig[:80], "saw_full": q.saw_full, "saw_empty": q.saw_empty} if ctx.evaluations < 4 else None)


def finalize(ctx):
    ctx.require("histories", 40)
    ctx.require("injected_delays", 50)
    ctx.require("histories_queue_full", 5)
    ctx.require("histories_queue_empty", 5)
    ctx.extra["distinct_interleavings"] = len(_STATE.get("sigs", ()))


LEVEL_TEXT = ("Real reader threads and the real consumer loop run around a logged queue under seeded schedule perturbation (sys.monitoring LINE callbacks) and injected "
              "read faults at every index; an offline checker decides exactly-once / order / single marker / FIFO / batch partition / thread termination over each recorded "
              "history. Interleavings are explored (diversity measured), fault positions are enumerated.")
LEVEL_NOTE = "Trusted: LoggedQueue (events recorded under the queue's own mutex), the echo model, the fault proxies. Interleavings are sampled, not enumerated."
TECHNIQUE = "runtime monitoring: schedule perturbation (sys.monitoring) + offline history checker at the queue boundary + logical deadlock detector"
