"""Audit-hook file-system monitor: observe every write boundary under watched directories.

sys.addaudithook cannot be removed, so one hook is installed per process and switched
through a module-level `STATE`. At each boundary (the hook fires *before* the operation,
so the tree is exactly what a crash between the previous and this write leaves behind)
the registered callback is invoked with (event, path)."""
import os
import sys

STATE = {"active": False, "roots": [], "callback": None, "count": 0, "in_cb": False, "kill_at": None}
_INSTALLED = []
WRITE_EVENTS = {"os.rename", "os.remove", "os.mkdir", "os.rmdir", "shutil.move", "shutil.copyfile", "shutil.rmtree", "os.replace", "os.truncate"}


def _under(path):
    try:
        p = os.path.abspath(os.fspath(path))
    except Exception:
        return None
    for r in STATE["roots"]:
        if p == r or p.startswith(r + os.sep):
            return p
    return None


def _hook(event, args):
    if not STATE["active"] or STATE["in_cb"]:
        return
    path = None
    if event == "open":
        f, mode, flags = (list(args) + [None, None, None])[:3]
        writing = (isinstance(mode, str) and any(c in mode for c in "wax+")) or (isinstance(flags, int) and flags & (os.O_WRONLY | os.O_RDWR | os.O_CREAT | os.O_TRUNC | os.O_APPEND))
        if not writing or not isinstance(f, (str, bytes, os.PathLike)):
            return
        path = _under(f)
    elif event in WRITE_EVENTS:
        for a in args[:2]:
            if isinstance(a, (str, bytes, os.PathLike)):
                path = _under(a)
                if path:
                    break
    if not path:
        return
    STATE["in_cb"] = True
    try:
        STATE["count"] += 1
        if STATE["kill_at"] is not None and STATE["count"] == STATE["kill_at"]:
            os._exit(77)  # simulated crash exactly at this write boundary
        if STATE["callback"]:
            STATE["callback"](event, path, STATE["count"])
    finally:
        STATE["in_cb"] = False


def install():
    if not _INSTALLED:
        sys.addaudithook(_hook)
        _INSTALLED.append(True)


class Watch:
    def __init__(self, roots, callback=None, kill_at=None):
        self.roots = [os.path.abspath(r) for r in roots]
        self.callback, self.kill_at = callback, kill_at

    def __enter__(self):
        install()
        STATE.update(active=True, roots=self.roots, callback=self.callback, count=0, kill_at=self.kill_at)
        return self

    def __exit__(self, *exc):
        STATE["active"] = False
        self.count = STATE["count"]


def scan_tree(roots, needle: bytes):
    """Files under roots whose bytes (or zip members) contain the needle. Returns (hits, n_files)."""
    import zipfile

    hits, n = [], 0
    for root in roots:
        for dp, dn, fn in os.walk(root):
            for f in fn:
                p = os.path.join(dp, f)
                try:
                    with open(p, "rb") as fh:
                        data = fh.read()
                except OSError:
                    continue
                n += 1
                if needle in data:
                    hits.append(os.path.relpath(p, root))
                    continue
                if data[:2] == b"PK":
                    try:
                        with zipfile.ZipFile(p) as z:
                            for m in z.namelist():
                                if needle in z.read(m):
                                    hits.append(os.path.relpath(p, root) + "::" + m)
                                    break
                    except Exception:
                        pass
    return hits, n
