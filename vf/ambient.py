"""Ambient contracts: cheap oracles attached (icontract.ensure, named conditions that *record*
and return True) to the real functions while the repository's own pinned tests run.

A contract that fires there is either too strict or a defect the tests do not assert - the
recorded witnesses are triaged like any other violation. Installed by the pytest plugin
`vf.ambient_plugin`; `run_tests` drives pytest in a subprocess and reports per property."""
import json
import os
import subprocess
import sys

import numpy as np

try:
    import torch
except ImportError:  # contracts are only installed where torch is present
    torch = None

RECORD = {"evaluations": {}, "violations": []}


def _rec(prop, name, ok, what=""):
    RECORD["evaluations"][name] = RECORD["evaluations"].get(name, 0) + 1
    if not ok and len(RECORD["violations"]) < 200:
        RECORD["violations"].append({"property": prop, "contract": name, "what": what})
    return True  # never disturb the test that is running


# ---- named conditions (parameter names match the decorated functions) -------------------

def confmaps_match_reference(instance, img_hw, sigma, output_stride, result):
    from vf.refmodels import maps as ref

    try:
        pts = instance.detach().numpy().astype(np.float64)
        pts = pts.reshape(pts.shape[0], -1, 2)
        H, W = int(img_hw[0]), int(img_hw[1])
        if H % output_stride or W % output_stride:
            return True
        got = result.detach().numpy().astype(np.float64)
        exp = np.stack([ref.confmap_single(p, H, W, output_stride, sigma) for p in pts])
        ok = got.shape == exp.shape and np.all(np.isfinite(got)) and np.abs(got - exp).max() <= 1e-5 + 1e-4
        return _rec("C01", "generate_confmaps", ok, f"shape {got.shape} vs {exp.shape}")
    except Exception as e:  # contract machinery must not break the test
        return _rec("C01", "generate_confmaps", True, str(e))


def multiconfmaps_match_reference(instances, img_hw, num_instances, sigma, output_stride, is_centroids, result):
    from vf.refmodels import maps as ref

    try:
        t = instances.detach().numpy().astype(np.float64)[0][:num_instances]
        H, W = int(img_hw[0]), int(img_hw[1])
        if H % output_stride or W % output_stride:
            return True
        P = t[:, None, :] if is_centroids else t
        exp = ref.confmap_multi(P, H, W, output_stride, sigma)[None]
        got = result.detach().numpy().astype(np.float64)
        ok = got.shape[1:] == exp.shape[1:] and np.all(np.isfinite(got)) and np.abs(got[:1] - exp).max() <= 1e-5 + 1e-4
        return _rec("C01", "generate_multiconfmaps", ok, "multi-instance confmaps differ from the reference")
    except Exception as e:
        return _rec("C01", "generate_multiconfmaps", True, str(e))


def pafs_are_finite_and_shaped(instances, img_hw, output_stride, edge_inds, flatten_channels, result):
    try:
        H, W = int(img_hw[0]), int(img_hw[1])
        E = len(edge_inds)
        want = (2 * E, H // output_stride, W // output_stride) if flatten_channels else (E, 2, H // output_stride, W // output_stride)
        ok = tuple(result.shape) == want and bool(np.isfinite(result.detach().numpy()).all())
        return _rec("C05", "generate_pafs", ok or bool(H % output_stride or W % output_stride), f"shape {tuple(result.shape)} vs {want} or non-finite")
    except Exception as e:
        return _rec("C05", "generate_pafs", True, str(e))


def local_peaks_are_strict_maxima(cms, threshold, result):
    from vf.props.peaks_common import brute_local_peaks

    try:
        a = cms.detach().numpy().astype(np.float64)
        if np.abs(a).max() > 100:
            return True
        pts, vals, si, ci = result
        got = {(int(s), int(c), int(p[1]), int(p[0])) for p, s, c in zip(pts.tolist(), si.tolist(), ci.tolist())}
        thr = float(np.float32(threshold)) if cms.dtype == torch.float32 else float(threshold)  # compared in the map's own precision
        return _rec("C06", "find_local_peaks_rough", got == brute_local_peaks(a, thr), "peak set differs from the brute-force neighbour scan")
    except Exception as e:
        return _rec("C06", "find_local_peaks_rough", True, str(e))


def global_peak_attains_maximum(cms, threshold, result):
    try:
        a = cms.detach().numpy().astype(np.float64)
        P, V = result[0].numpy().astype(np.float64), result[1].numpy().astype(np.float64)
        ok = True
        for s in range(a.shape[0]):
            for c in range(a.shape[1]):
                mx = a[s, c].max()
                if mx < threshold:
                    ok &= bool(np.isnan(P[s, c]).all() and V[s, c] == 0)
                else:
                    x, y = P[s, c]
                    ok &= bool(np.isfinite(x) and a[s, c, int(y), int(x)] == mx and V[s, c] == mx)
        return _rec("C07", "find_global_peaks_rough", ok, "reported cell does not attain the maximum / threshold rule broken")
    except Exception as e:
        return _rec("C07", "find_global_peaks_rough", True, str(e))


def edge_order_is_parent_first(edge_types, result):
    try:
        edges = [(e.src_node_ind, e.dst_node_ind) for e in edge_types]
        order = list(result)
        ok = sorted(order) == list(range(len(edges)))
        entered = {}
        for pos, k in enumerate(order):
            entered[edges[k][1]] = pos
        ok = ok and all(not (edges[k][0] in entered and entered[edges[k][0]] > pos) for pos, k in enumerate(order))
        return _rec("C17", "toposort_edges", ok, f"order {order} for edges {edges}")
    except Exception as e:
        return _rec("C17", "toposort_edges", True, str(e))


def oks_in_unit_interval(points_gt, points_pr, result):
    try:
        g = np.asarray(points_gt)
        g = g[None] if g.ndim == 2 else g
        has_vis = ~np.isnan(g).any(-1).all(-1)
        r = np.asarray(result)[has_vis]
        ok = r.size == 0 or (np.all(np.isfinite(r)) and r.min() >= 0 and r.max() <= 1 + 1e-12)
        return _rec("C15", "compute_oks", bool(ok), f"OKS outside [0,1]: {np.asarray(result).tolist()}")
    except Exception as e:
        return _rec("C15", "compute_oks", True, str(e))


CONTRACTS = [("sleap_nn.data.confidence_maps", "generate_confmaps", confmaps_match_reference),
             ("sleap_nn.data.confidence_maps", "generate_multiconfmaps", multiconfmaps_match_reference),
             ("sleap_nn.data.edge_maps", "generate_pafs", pafs_are_finite_and_shaped),
             ("sleap_nn.inference.peak_finding", "find_local_peaks_rough", local_peaks_are_strict_maxima),
             ("sleap_nn.inference.peak_finding", "find_global_peaks_rough", global_peak_attains_maximum),
             ("sleap_nn.inference.paf_grouping", "toposort_edges", edge_order_is_parent_first),
             ("sleap_nn.evaluation", "compute_oks", oks_in_unit_interval)]
PURE = [("sleap_nn.data.instance_centroids", "generate_centroids"), ("sleap_nn.data.instance_cropping", "generate_crops"), ("sleap_nn.data.instance_cropping", "make_centered_bboxes"),
        ("sleap_nn.data.resizing", "apply_sizematcher"), ("sleap_nn.data.resizing", "apply_resizer"), ("sleap_nn.data.resizing", "apply_pad_to_stride")]


class PostBroken(Exception):
    pass


def install():
    """Decorate the real functions (icontract.ensure) and rebind them in every loaded sleap_nn module."""
    import importlib

    from vf import instrument

    try:
        import icontract
    except ImportError:
        icontract = None
    done = []
    for modname, fname, cond in CONTRACTS:
        mod = importlib.import_module(modname)
        orig = getattr(mod, fname)
        if getattr(orig, "_vf_ambient", False):
            continue
        if icontract is not None:
            wrapped = icontract.ensure(cond, error=PostBroken)(orig)
        else:  # same semantics without the library
            import functools
            import inspect

            sig = inspect.signature(orig)
            names = [p for p in inspect.signature(cond).parameters if p != "result"]

            @functools.wraps(orig)
            def wrapped(*a, _orig=orig, _sig=sig, _names=names, _cond=cond, **k):
                res = _orig(*a, **k)
                b = _sig.bind(*a, **k)
                b.apply_defaults()
                _cond(**{n: b.arguments[n] for n in _names}, result=res)
                return res
        wrapped._vf_ambient = True
        for m in list(sys.modules.values()):
            if m is None or not getattr(m, "__name__", "").startswith(("sleap_nn", "tests", "test_")):
                continue
            for attr, val in list(vars(m).items()):
                if val is orig:
                    setattr(m, attr, wrapped)
        done.append(fname)
    probes = instrument.Probes()
    for m, f in PURE:
        importlib.import_module(m)
        probes.wrap_purity(m, f, on_mutation=lambda fn, key: _rec("C11", "purity:" + fn, False, f"{fn} modified its argument {key}"))
    RECORD["probes"] = probes
    RECORD["installed"] = done + ["purity:" + f for _, f in PURE]
    RECORD["icontract"] = icontract is not None
    return done


def dump(path):
    out = {"evaluations": dict(RECORD["evaluations"]), "violations": RECORD["violations"], "installed": RECORD.get("installed", []), "icontract": RECORD.get("icontract")}
    if "probes" in RECORD:
        for k, v in RECORD["probes"].counts.items():
            out["evaluations"]["purity:" + k] = v
    with open(path, "w") as f:
        json.dump(out, f)


def run_tests(ctx, pid, test_paths, contracts):
    """Run the repository's own pinned tests under the ambient contracts (subprocess) and fold the
    observations of property `pid` into ctx. Zero evaluations of a contract => inconclusive."""
    from vf.core import REPO_ROOT, VERIF_ROOT

    out = os.path.join(VERIF_ROOT, ".work", f"ambient-{pid}-{os.getpid()}.json")
    os.makedirs(os.path.dirname(out), exist_ok=True)
    env = dict(os.environ, VF_AMBIENT_OUT=out, PYTHONPATH=os.pathsep.join([VERIF_ROOT] + [p for p in os.environ.get("PYTHONPATH", "").split(os.pathsep) if p]))
    cmd = [sys.executable, "-m", "pytest", "-q", "-p", "no:cacheprovider", "-p", "vf.ambient_plugin", "--timeout=900"] + [os.path.join(REPO_ROOT, t) for t in test_paths]
    try:
        p = subprocess.run(cmd, cwd=REPO_ROOT, env=env, capture_output=True, text=True, timeout=1200)
    except subprocess.TimeoutExpired:
        ctx.note_inconclusive("ambient baseline run hit the watchdog")
        return
    if not os.path.exists(out):
        ctx.note_inconclusive(f"ambient baseline run produced no observations (pytest rc {p.returncode}): {p.stdout[-300:]}")
        return
    data = json.load(open(out))
    os.remove(out)
    ctx.extra["ambient_pytest_summary"] = p.stdout.strip().splitlines()[-1] if p.stdout.strip() else ""
    ctx.extra["ambient_icontract"] = data.get("icontract")
    for name in contracts:
        n = data["evaluations"].get(name, 0)
        ctx.count("ambient_evaluations:" + name, n)
        if n == 0:
            ctx.note_inconclusive(f"ambient contract '{name}' was never evaluated by the repository's tests")
    for v in data["violations"]:
        if v["property"] == pid:
            ctx.violation("ambient:" + v["contract"], f"contract on {v['contract']} fired while the repository's own tests ran: {v['what']}", {"ambient": v, "tests": test_paths})
