"""pytest plugin: install the ambient contracts before collection, dump observations at the end."""
import os


def pytest_configure(config):
    from vf import compat

    compat.install()
    from vf import ambient

    ambient.install()


def pytest_collection_finish(session):
    # test modules bind functions with `from m import f` at import time: rebind those too
    from vf import ambient

    ambient.install_rebind_only = True
    import sys

    wrapped = {}
    for modname, fname, _ in ambient.CONTRACTS:
        m = sys.modules.get(modname)
        if m is not None:
            w = getattr(m, fname)
            orig = getattr(w, "__wrapped__", None)
            if orig is not None:
                wrapped[id(orig)] = w
    for m in list(sys.modules.values()):
        if m is None or not getattr(m, "__name__", "").startswith(("tests", "test_")):
            continue
        for attr, val in list(vars(m).items()):
            if id(val) in wrapped:
                setattr(m, attr, wrapped[id(val)])


def pytest_sessionfinish(session, exitstatus):
    from vf import ambient

    out = os.environ.get("VF_AMBIENT_OUT")
    if out:
        ambient.dump(out)
