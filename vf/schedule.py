"""Schedule perturbation through sys.monitoring LINE callbacks + an instrumented queue.

`Perturber` registers LINE events on a chosen set of code objects; at each statement
start of those functions the calling thread sleeps for 0 / a few hundred microseconds
with a seeded, role-dependent probability. Sleeping only happens between statements
of pure-Python code that holds no lock of the queue (Queue.put/get internals are not
instrumented), i.e. where real pre-emption can occur.
"""
import queue
import random
import sys
import threading
import time

TOOL_ID = 3


class Perturber:
    def __init__(self, codes, seed, p_producer, p_consumer, is_producer, max_sleep=0.0006):
        self.codes = list(codes)
        self.seed = seed
        self.p = {"P": p_producer, "C": p_consumer}
        self.is_producer = is_producer
        self.max_sleep = max_sleep
        self.local = threading.local()
        self.injections = 0
        self.lines = 0
        self.active = False

    def _rng(self):
        r = getattr(self.local, "rng", None)
        if r is None:
            role = "P" if self.is_producer(threading.current_thread()) else "C"
            r = self.local.rng = random.Random(f"{self.seed}-{role}")
            self.local.role = role
        return r

    def _on_line(self, code, line):
        r = self._rng()
        self.lines += 1
        if r.random() < self.p[self.local.role]:
            self.injections += 1
            time.sleep(r.choice((0.0, 0.0001, self.max_sleep)))

    def __enter__(self):
        mon = sys.monitoring
        try:
            mon.use_tool_id(TOOL_ID, "vf-schedule")
        except ValueError:
            mon.free_tool_id(TOOL_ID)
            mon.use_tool_id(TOOL_ID, "vf-schedule")
        mon.register_callback(TOOL_ID, mon.events.LINE, self._on_line)
        for c in self.codes:
            mon.set_local_events(TOOL_ID, c, mon.events.LINE)
        self.active = True
        return self

    def __exit__(self, *exc):
        mon = sys.monitoring
        for c in self.codes:
            mon.set_local_events(TOOL_ID, c, 0)
        mon.register_callback(TOOL_ID, mon.events.LINE, None)
        mon.free_tool_id(TOOL_ID)
        self.active = False


class LoggedQueue(queue.Queue):
    """queue.Queue that records put/get at the queue boundary, under the queue's own mutex."""

    def __init__(self, maxsize=0):
        super().__init__(maxsize)
        self.events = []  # (clock, "P"|"G", thread name, item id, tag)
        self.clock = 0
        self.saw_full = 0
        self.saw_empty = 0
        self.items = {}

    def _put(self, item):
        super()._put(item)
        self.clock += 1
        self.items[id(item)] = item
        self.events.append((self.clock, "P", threading.current_thread().name, id(item)))
        if self.maxsize > 0 and self._qsize() >= self.maxsize:
            self.saw_full += 1

    def _get(self):
        item = super()._get()
        self.clock += 1
        self.events.append((self.clock, "G", threading.current_thread().name, id(item)))
        if self._qsize() == 0:
            self.saw_empty += 1
        return item

    def signature(self):
        return "".join(e[1] for e in self.events)


def thread_in_queue_wait(thread, names=("get", "put")):
    """Is `thread` currently parked inside queue.Queue.get/put (-> Condition.wait)?"""
    fr = sys._current_frames().get(thread.ident)
    while fr is not None:
        if fr.f_code.co_name in names and fr.f_code.co_filename.endswith("queue.py"):
            return fr.f_code.co_name
        fr = fr.f_back
    return None


def thread_in_join(thread):
    """Is `thread` parked inside threading.Thread.join?"""
    fr = sys._current_frames().get(thread.ident)
    while fr is not None:
        if fr.f_code.co_name == "join" and fr.f_code.co_filename.endswith("threading.py"):
            return True
        fr = fr.f_back
    return False
