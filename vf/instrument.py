"""Rebinding probes: wrap functions of the real code at their module boundary.

sleap_nn modules bind each other's functions with `from m import f`, so installation walks
every loaded `sleap_nn.*` module and replaces each attribute that *is* the original. Every
probe counts its evaluations; a deciding probe with zero evaluations makes a run inconclusive.
"""
import functools
import sys

import numpy as np


def _snap(x):
    import torch

    if isinstance(x, torch.Tensor):
        return ("t", x.detach().clone())
    if isinstance(x, np.ndarray):
        return ("n", x.copy())
    return None


def _same(snap, x):
    import torch

    kind, old = snap
    if kind == "t":
        if not isinstance(x, torch.Tensor) or x.shape != old.shape or x.dtype != old.dtype:
            return False
        if x.is_floating_point():
            return bool(torch.equal(torch.nan_to_num(x, nan=-12345.0), torch.nan_to_num(old, nan=-12345.0)) and torch.equal(torch.isnan(x), torch.isnan(old)))
        return bool(torch.equal(x, old))
    if x.shape != old.shape:
        return False
    if np.issubdtype(old.dtype, np.floating):
        return bool(np.array_equal(np.isnan(x), np.isnan(old)) and np.array_equal(np.nan_to_num(x, nan=-12345.0), np.nan_to_num(old, nan=-12345.0)))
    return bool(np.array_equal(x, old))


class Probes:
    def __init__(self):
        self.installed = []  # (module, attr, original)
        self.counts = {}
        self.mutations = []  # (func name, arg index/name, context)

    def wrap_purity(self, modname, fname, on_mutation=None):
        mod = sys.modules[modname]
        orig = getattr(mod, fname)
        if getattr(orig, "_vf_probe", False):
            return
        probes = self

        @functools.wraps(orig)
        def wrapper(*args, **kwargs):
            snaps = [(i, _snap(a)) for i, a in enumerate(args)] + [(k, _snap(v)) for k, v in kwargs.items()]
            # one level into dict arguments (DataPipe-style examples)
            for i, a in list(enumerate(args)) + list(kwargs.items()):
                if isinstance(a, dict):
                    snaps += [((i, k), _snap(v)) for k, v in a.items()]
            probes.counts[fname] = probes.counts.get(fname, 0) + 1
            out = orig(*args, **kwargs)
            for key, sn in snaps:
                if sn is None:
                    continue
                if isinstance(key, tuple):
                    holder = args[key[0]] if isinstance(key[0], int) else kwargs[key[0]]
                    cur = holder.get(key[1])
                else:
                    cur = args[key] if isinstance(key, int) else kwargs[key]
                if not _same(sn, cur):
                    rec = (fname, key)
                    probes.mutations.append(rec)
                    if on_mutation:
                        on_mutation(fname, key)
            return out

        wrapper._vf_probe = True
        wrapper._vf_orig = orig
        for m in list(sys.modules.values()):
            if m is None or not getattr(m, "__name__", "").startswith("sleap_nn"):
                continue
            for attr, val in list(vars(m).items()):
                if val is orig:
                    setattr(m, attr, wrapper)
                    self.installed.append((m, attr, orig))

    def uninstall(self):
        for m, attr, orig in self.installed:
            setattr(m, attr, orig)
        self.installed = []
