"""Independent float64 reference models for training targets (no sleap_nn imports)."""
import numpy as np


def grid(size, stride):
    return np.arange(0, size, stride, dtype=np.float64)


def confmap_single(points, H, W, stride, sigma):
    """points: (nodes, 2) float64 with NaN for missing -> (nodes, H/s, W/s)."""
    xv, yv = grid(W, stride), grid(H, stride)
    s = float(sigma) * float(stride)
    out = np.zeros((points.shape[0], len(yv), len(xv)))
    for k, (x, y) in enumerate(points):
        if np.isnan(x) or np.isnan(y):
            continue
        with np.errstate(over="ignore", invalid="ignore"):
            dx2 = (xv[None, :] - x) ** 2
            dy2 = (yv[:, None] - y) ** 2
            v = np.exp(-(dx2 + dy2) / (2 * s * s))
        v[~np.isfinite(v)] = 0.0
        out[k] = v
    return out


def confmap_multi(instances, H, W, stride, sigma):
    """instances: (animals, nodes, 2) -> per-cell max over animals (nodes, H/s, W/s)."""
    n_nodes = instances.shape[1]
    xv, yv = grid(W, stride), grid(H, stride)
    out = np.zeros((n_nodes, len(yv), len(xv)))
    for inst in instances:
        out = np.maximum(out, confmap_single(inst, H, W, stride, sigma))
    return out


def seg_distance(px, py, a, b):
    """True Euclidean distance from points (px,py arrays) to segment a-b (float64)."""
    a = np.asarray(a, float)
    b = np.asarray(b, float)
    d = b - a
    L2 = float(d @ d)
    rx, ry = px - a[0], py - a[1]
    if L2 == 0:
        return np.hypot(rx, ry)
    t = np.clip((rx * d[0] + ry * d[1]) / L2, 0.0, 1.0)
    return np.hypot(rx - t * d[0], ry - t * d[1])


def paf_weight_sleap(px, py, a, b, sigma):
    """The weight the pinned implementation uses (documented for the oracle network only):
    exp(-(d^2)^2 / (2 sigma^2)) with the projection normalised by max(|ab|^2, 1)."""
    a = np.asarray(a, float)
    b = np.asarray(b, float)
    d = b - a
    L2 = max(float(d @ d), 1.0)
    rx, ry = px - a[0], py - a[1]
    t = np.clip((rx * d[0] + ry * d[1]) / L2, 0.0, 1.0)
    d2 = (t * d[0] - rx) ** 2 + (t * d[1] - ry) ** 2
    return np.exp(-(d2 ** 2) / (2 * sigma ** 2))
