"""Coordinate-coded ramp images and affine registration fits (numpy only)."""
import numpy as np

OFFSET = 20.0  # coded value = coordinate + OFFSET so that content is never 0 (0 = padding)


def ramp_image_float(H, W):
    """float32 (3, H, W): ch0 = x + OFFSET, ch1 = y + OFFSET, ch2 = 1 (marker)."""
    yy, xx = np.mgrid[0:H, 0:W].astype(np.float32)
    return np.stack([xx + OFFSET, yy + OFFSET, np.ones_like(xx)], 0)


def ramp_frame_uint8(H, W, frame_id=0):
    """uint8 (H, W, 3): R = x + OFFSET, G = y + OFFSET, B = 128 + frame_id (H, W <= 235)."""
    assert H + OFFSET <= 255 and W + OFFSET <= 255
    yy, xx = np.mgrid[0:H, 0:W]
    return np.stack([xx + OFFSET, yy + OFFSET, np.full_like(xx, 128 + frame_id)], -1).astype(np.uint8)


def interior_ok(mask, r):
    """Pixels whose (2r+1)^2 neighbourhood is entirely content (image border excluded too)."""
    H, W = mask.shape
    pad = np.pad(mask, r, mode="constant", constant_values=False)
    out = np.ones_like(mask)
    for dy in range(0, 2 * r + 1):
        for dx in range(0, 2 * r + 1):
            out &= pad[dy:dy + H, dx:dx + W]
    return out


def fit_affine(code_x, code_y, marker, marker_level=1.0, r=2, tol=0.02):
    """Fit orig = A @ (j, i) + t on pixels whose marker is intact.

    code_x/code_y: arrays (H', W') holding (x_orig + OFFSET) / (y_orig + OFFSET) in the
    scale of the caller (already multiplied back to coordinate units).
    Returns dict(A (2x2), t (2,), resid (max abs residual), n (pixels used), mask).
    """
    mask = np.abs(marker - marker_level) <= tol * max(1.0, abs(marker_level))
    mask = interior_ok(mask, r)
    n = int(mask.sum())
    if n < 12:
        return None
    ii, jj = np.nonzero(mask)
    X = np.stack([jj, ii, np.ones_like(jj)], 1).astype(np.float64)
    bx = code_x[mask].astype(np.float64) - OFFSET
    by = code_y[mask].astype(np.float64) - OFFSET
    px, *_ = np.linalg.lstsq(X, bx, rcond=None)
    py, *_ = np.linalg.lstsq(X, by, rcond=None)
    A = np.array([[px[0], px[1]], [py[0], py[1]]])
    t = np.array([px[2], py[2]])
    res = max(np.abs(X @ px - bx).max(), np.abs(X @ py - by).max())
    rms = float(np.sqrt(np.mean((X @ px - bx) ** 2 + (X @ py - by) ** 2)))
    return {"A": A, "t": t, "resid": float(res), "rms": rms, "n": n, "mask": mask}


def to_output(fit, pts_orig):
    """Where original points went in the output image: solve A p + t = orig."""
    P = np.asarray(pts_orig, dtype=np.float64)
    return (np.linalg.inv(fit["A"]) @ (P - fit["t"]).T).T
