"""Environment adaptation living in the harness process only (never in /repo).

* kornia 0.8.3 no longer exports ``kornia.core.Tensor`` which
  ``sleap_nn/data/augmentation.py`` imports; alias it to ``torch.Tensor``.
* optional legacy sleap-io keyword shim (``points=`` / ``instance_score=``) used only
  by sub-checks that observe ``make_labels=True``.

Both are no-ops when the import works natively.
"""
import os
import sys
import warnings

warnings.filterwarnings("ignore")
os.environ.setdefault("OMP_NUM_THREADS", "1")
os.environ.setdefault("WANDB_MODE", "offline")
os.environ.setdefault("WANDB_SILENT", "true")

VERIF_ROOT = os.environ.get("VERIF_ROOT", os.path.dirname(os.path.dirname(os.path.abspath(__file__))))
_deps = os.path.join(VERIF_ROOT, ".deps")
if os.path.isdir(_deps) and _deps not in sys.path:
    sys.path.append(_deps)  # appended: never shadows /venv's own packages

SHIMS = []


def install():
    import torch

    torch.set_num_threads(1)
    try:
        import kornia.core as kc

        if not hasattr(kc, "Tensor"):
            kc.Tensor = torch.Tensor
            SHIMS.append("kornia.core.Tensor")
    except Exception:  # pragma: no cover
        pass
    try:
        from loguru import logger

        logger.remove()
    except Exception:
        pass
    return SHIMS


def install_legacy_sio():
    """Translate legacy ``from_numpy(points=, instance_score=)`` keywords."""
    import sleap_io as sio
    import inspect

    done = []
    for cls in (sio.Instance, sio.PredictedInstance):
        orig = cls.from_numpy
        try:
            params = inspect.signature(orig).parameters
        except Exception:
            continue
        if "points" in params or getattr(orig, "_vf_shim", False):
            continue
        f = orig.__func__ if hasattr(orig, "__func__") else orig

        def make(f):
            def from_numpy(cls, *a, **kw):
                if "points" in kw:
                    kw["points_data"] = kw.pop("points")
                if "instance_score" in kw:
                    kw["score"] = kw.pop("instance_score")
                return f(cls, *a, **kw)

            from_numpy._vf_shim = True
            return classmethod(from_numpy)

        cls.from_numpy = make(f)
        done.append(cls.__name__)
    if done:
        SHIMS.append("sleap_io.from_numpy legacy keywords")
    return done
