"""Synthetic sleap-io objects and coordinate-coded scenes (current sleap-io API only)."""
import os
import shutil
import tempfile

import numpy as np

from vf.core import VERIF_ROOT

_WORK = None


def workdir(pid="misc"):
    """Per-process scratch directory under /verif/.work (removed at exit)."""
    global _WORK
    if _WORK is None:
        base = os.path.join(VERIF_ROOT, ".work", pid)
        os.makedirs(base, exist_ok=True)
        _WORK = tempfile.mkdtemp(prefix=f"p{os.getpid()}-", dir=base)
        import atexit

        atexit.register(cleanup)
    return _WORK


def cleanup():
    global _WORK
    if _WORK and os.path.isdir(_WORK):
        shutil.rmtree(_WORK, ignore_errors=True)
        try:
            os.rmdir(os.path.dirname(_WORK))
        except OSError:
            pass
    _WORK = None


def write_h5_video(path, frames):
    """frames: uint8 array (N, H, W, C) -> raw contiguous HDF5 video readable by sio.load_video."""
    import h5py

    with h5py.File(path, "w") as f:
        f.create_dataset("video", data=np.ascontiguousarray(frames))
    return path


def blank_video(pid, n_frames=4, H=48, W=64, C=1, name="blank.h5"):
    import sleap_io as sio

    p = os.path.join(workdir(pid), name)
    if not os.path.exists(p):
        write_h5_video(p, np.zeros((n_frames, H, W, C), np.uint8))
    return sio.load_video(p)


def skeleton(n_nodes, edges=None, names=None):
    import sleap_io as sio

    names = names or [f"n{k}" for k in range(n_nodes)]
    if edges is None:
        edges = [(k, k + 1) for k in range(n_nodes - 1)]
    return sio.Skeleton(nodes=list(names), edges=[(names[a], names[b]) for a, b in edges])


def user_instance(points, skel, track=None):
    import sleap_io as sio

    return sio.Instance.from_numpy(np.asarray(points, dtype=np.float64), skeleton=skel, track=track)


def pred_instance(points, skel, score=1.0, point_scores=None, track=None):
    import sleap_io as sio

    pts = np.asarray(points, dtype=np.float64)
    if point_scores is None:
        point_scores = np.ones(len(pts))
    return sio.PredictedInstance.from_numpy(pts, skeleton=skel, point_scores=np.asarray(point_scores, float), score=float(score), track=track)


def coded_video(pid, name, n_frames, H, W, mode="rgb", code_step=1):
    """Raw HDF5 video whose pixels encode their own coordinates (see vf/geom.py).

    mode "rgb": R = x+OFFSET, G = y+OFFSET, B = 128+frame; "x" / "y": a single coded channel in R
    (used for grayscale pipelines, decoded from two runs)."""
    import sleap_io as sio
    from vf import geom

    frames = np.zeros((n_frames, H, W, 3), np.uint8)
    for f in range(n_frames):
        fr = geom.ramp_frame_uint8(H, W, f * code_step)
        if mode == "x":
            fr = np.stack([fr[..., 0], np.zeros_like(fr[..., 0]), np.zeros_like(fr[..., 0])], -1)
        elif mode == "y":
            fr = np.stack([fr[..., 1], np.zeros_like(fr[..., 0]), np.zeros_like(fr[..., 0])], -1)
        frames[f] = fr
    p = os.path.join(workdir(pid), name)
    write_h5_video(p, frames)
    return sio.load_video(p)


def labels_from_poses(video_frames, skel):
    """video_frames: list of (video, frame_idx, [poses (n_nodes,2) with NaN], [is_predicted flags])."""
    import sleap_io as sio

    lfs = []
    for item in video_frames:
        video, fidx, poses = item[0], item[1], item[2]
        flags = item[3] if len(item) > 3 else [False] * len(poses)
        insts = [pred_instance(p, skel, score=0.9) if fl else user_instance(p, skel) for p, fl in zip(poses, flags)]
        lfs.append(sio.LabeledFrame(video=video, frame_idx=fidx, instances=insts))
    return sio.Labels(lfs)
