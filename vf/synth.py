"""Synthetic sleap-io objects and coordinate-coded scenes (current sleap-io API only)."""
import os
import shutil
import tempfile

import numpy as np

from vf.core import VERIF_ROOT

_WORK = None


def workdir(pid="misc"):
    """Per-process scratch directory under /verif/.work (removed at exit)."""
    global _WORK
    if _WORK is None:
        base = os.path.join(VERIF_ROOT, ".work", pid)
        os.makedirs(base, exist_ok=True)
        _WORK = tempfile.mkdtemp(prefix=f"p{os.getpid()}-", dir=base)
        import atexit

        atexit.register(cleanup)
    return _WORK


def cleanup():
    global _WORK
    if _WORK and os.path.isdir(_WORK):
        shutil.rmtree(_WORK, ignore_errors=True)
        try:
            os.rmdir(os.path.dirname(_WORK))
        except OSError:
            pass
    _WORK = None


def write_h5_video(path, frames):
    """frames: uint8 array (N, H, W, C) -> raw contiguous HDF5 video readable by sio.load_video."""
    import h5py

    with h5py.File(path, "w") as f:
        f.create_dataset("video", data=np.ascontiguousarray(frames))
    return path


def blank_video(pid, n_frames=4, H=48, W=64, C=1, name="blank.h5"):
    import sleap_io as sio

    p = os.path.join(workdir(pid), name)
    if not os.path.exists(p):
        write_h5_video(p, np.zeros((n_frames, H, W, C), np.uint8))
    return sio.load_video(p)


def skeleton(n_nodes, edges=None, names=None):
    import sleap_io as sio

    names = names or [f"n{k}" for k in range(n_nodes)]
    if edges is None:
        edges = [(k, k + 1) for k in range(n_nodes - 1)]
    return sio.Skeleton(nodes=list(names), edges=[(names[a], names[b]) for a, b in edges])


def user_instance(points, skel, track=None):
    import sleap_io as sio

    return sio.Instance.from_numpy(np.asarray(points, dtype=np.float64), skeleton=skel, track=track)


def pred_instance(points, skel, score=1.0, point_scores=None, track=None):
    import sleap_io as sio

    pts = np.asarray(points, dtype=np.float64)
    if point_scores is None:
        point_scores = np.ones(len(pts))
    return sio.PredictedInstance.from_numpy(pts, skeleton=skel, point_scores=np.asarray(point_scores, float), score=float(score), track=track)
