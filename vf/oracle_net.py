"""Self-locating "ideal networks" placed inside the real inference models / predictors.

Each stub reads the image it is *actually given* (coordinate-coded frames, vf/geom.py), recovers
from the pixels alone which frame it is and which axis-aligned map (scale, translation/crop,
padding) separates it from the original frame, and renders the ideal confidence maps / PAFs for
that geometry with the independent reference models. Everything upstream (reader thread,
normalisation, size matching, scaling, padding, cropping) and downstream (peak finding,
stride / scale / eff_scale / bbox arithmetic, grouping) is the repository's code.
"""
import numpy as np
import torch

from vf import geom
from vf.refmodels import maps as ref


class Scene:
    """Ground truth: poses[(video_idx, frame_idx)] = list of (n_nodes, 2) arrays (NaN = missing)."""

    def __init__(self, n_nodes, edges=None):
        self.n_nodes = n_nodes
        self.edges = edges or []
        self.poses = {}      # code id -> list of poses
        self.ident = {}      # code id -> (video_idx, frame_idx)
        self.amplitude = {}  # code id -> list of centroid amplitudes (distinct per animal)

    def add(self, code_id, video_idx, frame_idx, poses, amplitudes=None):
        self.poses[code_id] = [np.asarray(p, float) for p in poses]
        self.ident[code_id] = (video_idx, frame_idx)
        self.amplitude[code_id] = amplitudes or [0.75 ** k for k in range(len(poses))]  # far enough apart that grid sampling (<= 11% loss) cannot reorder them


def centroid_of(pose, anchor=None):
    if anchor is not None and not np.isnan(pose[anchor]).any():
        return pose[anchor]
    return (np.nanmax(pose, 0) + np.nanmin(pose, 0)) / 2


class Located:
    __slots__ = ("code_id", "ax", "bx", "ay", "by", "resid", "n", "H", "W", "ok", "why")


def locate(img_chw):
    """img_chw: float array (3, H, W) in [0,1]. Returns a Located record."""
    L = Located()
    L.H, L.W = img_chw.shape[-2:]
    L.ok, L.why = False, ""
    a = img_chw.astype(np.float64) * 255.0
    B = a[2]
    cand = B[B > 100]
    if cand.size < 12:
        L.why = "no coded content in the image"
        return L
    level = float(np.round(np.median(cand)))
    L.code_id = int(level) - 128
    fit = geom.fit_affine(a[0], a[1], B, marker_level=level, r=2, tol=0.6 / max(level, 1.0))
    if fit is None:
        L.why = "too few intact pixels"
        return L
    A = fit["A"]
    L.ax, L.ay = float(A[0, 0]), float(A[1, 1])
    L.bx, L.by = float(fit["t"][0]), float(fit["t"][1])
    L.resid, L.n = fit["rms"], fit["n"]
    if abs(A[0, 1]) > 2e-2 or abs(A[1, 0]) > 2e-2 or L.ax <= 0 or L.ay <= 0:
        L.why = f"received geometry is not an axis-aligned scaling/translation: {A.tolist()}"
        return L
    if fit["rms"] > 0.35:
        L.why = f"poor fit (rms {fit['rms']:.3f})"
        return L
    L.ok = True
    return L


def to_received(L, pts):
    """Original-frame points -> coordinates in the received image (training convention)."""
    p = np.asarray(pts, float)
    out = np.empty_like(p)
    out[..., 0] = p[..., 0] / L.ax - ((L.bx + 0.5) / L.ax - 0.5)
    out[..., 1] = p[..., 1] / L.ay - ((L.by + 0.5) / L.ay - 0.5)
    return out


class _Base(torch.nn.Module):
    def __init__(self, scene, stride, sigma, max_stride=1, log=None):
        super().__init__()
        self.scene, self.stride, self.sigma, self.max_stride = scene, int(stride), float(sigma), int(max_stride)
        self.log = log if log is not None else []
        self.contract_violations = []

    def _frames(self, x):
        if x.dim() == 5:
            x = x.squeeze(1)
        return x.detach().cpu().numpy()

    def _check_contract(self, x):
        H, W = x.shape[-2:]
        if x.shape[-3] != 3:
            self.contract_violations.append(f"network input has {x.shape[-3]} channels (expected 3)")
        if self.max_stride > 1 and (H % self.max_stride or W % self.max_stride):
            self.contract_violations.append(f"network input {H}x{W} is not a multiple of max_stride {self.max_stride}")

    def _locate(self, img):
        L = locate(img)
        self.log.append({"code_id": getattr(L, "code_id", None), "shape": [L.H, L.W], "ok": L.ok, "why": L.why,
                         "a": [round(getattr(L, "ax", 0) or 0, 4), round(getattr(L, "ay", 0) or 0, 4)] if L.ok else None,
                         "b": [round(L.bx, 3), round(L.by, 3)] if L.ok else None, "n": getattr(L, "n", 0)})
        return L


class OracleSingle(_Base):
    """Ideal single-instance network: confidence maps (B, n_nodes, H/s, W/s)."""

    def forward(self, x):
        x = self._frames(x)
        self._check_contract(x)
        out = []
        for img in x:
            L = self._locate(img)
            H, W = img.shape[-2:]
            if not L.ok or L.code_id not in self.scene.poses or not self.scene.poses[L.code_id]:
                out.append(np.zeros((self.scene.n_nodes, H // self.stride, W // self.stride)))
                continue
            kp = to_received(L, self.scene.poses[L.code_id][0])
            out.append(ref.confmap_single(kp, H, W, self.stride, self.sigma))
        return torch.from_numpy(np.stack(out).astype(np.float32))


class OracleCentroid(_Base):
    """Ideal centroid network: (B, 1, H/s, W/s), one bump per animal with a distinct known amplitude."""

    def __init__(self, scene, stride, sigma, anchor=None, **kw):
        super().__init__(scene, stride, sigma, **kw)
        self.anchor = anchor

    def forward(self, x):
        x = self._frames(x)
        self._check_contract(x)
        out = []
        for img in x:
            L = self._locate(img)
            H, W = img.shape[-2:]
            m = np.zeros((1, H // self.stride, W // self.stride))
            if L.ok and L.code_id in self.scene.poses:
                for pose, amp in zip(self.scene.poses[L.code_id], self.scene.amplitude[L.code_id]):
                    if np.isnan(pose).all():
                        continue
                    c = to_received(L, centroid_of(pose, self.anchor)[None])
                    m = np.maximum(m, amp * ref.confmap_single(c, H, W, self.stride, self.sigma))
            out.append(m)
        return torch.from_numpy(np.stack(out).astype(np.float32))


class OracleCentered(_Base):
    """Ideal centred-instance network: for each crop, the animal whose centroid is nearest the crop centre."""

    def __init__(self, scene, stride, sigma, anchor=None, **kw):
        super().__init__(scene, stride, sigma, **kw)
        self.anchor = anchor

    def forward(self, x):
        x = self._frames(x)
        self._check_contract(x)
        out = []
        for img in x:
            L = self._locate(img)
            H, W = img.shape[-2:]
            if not L.ok or not self.scene.poses.get(L.code_id):
                out.append(np.zeros((self.scene.n_nodes, H // self.stride, W // self.stride)))
                continue
            poses = [p for p in self.scene.poses[L.code_id] if not np.isnan(p).all()]
            cents = np.array([to_received(L, centroid_of(p, self.anchor)[None])[0] for p in poses])
            centre = np.array([(W - 1) / 2, (H - 1) / 2])
            k = int(np.argmin(np.hypot(*(cents - centre).T)))
            out.append(ref.confmap_single(to_received(L, poses[k]), H, W, self.stride, self.sigma))
        return torch.from_numpy(np.stack(out).astype(np.float32))


class OracleBottomUp(_Base):
    """Ideal bottom-up network: dict of multi-instance confidence maps and PAFs."""

    def __init__(self, scene, cms_stride, paf_stride, sigma, paf_sigma, **kw):
        super().__init__(scene, cms_stride, sigma, **kw)
        self.paf_stride, self.paf_sigma = int(paf_stride), float(paf_sigma)

    def forward(self, x):
        x = self._frames(x)
        self._check_contract(x)
        cms, pafs = [], []
        E = len(self.scene.edges)
        for img in x:
            L = self._locate(img)
            H, W = img.shape[-2:]
            cm = np.zeros((self.scene.n_nodes, H // self.stride, W // self.stride))
            pf = np.zeros((2 * E, H // self.paf_stride, W // self.paf_stride))
            if L.ok and L.code_id in self.scene.poses:
                xv, yv = ref.grid(W, self.paf_stride), ref.grid(H, self.paf_stride)
                GX, GY = np.meshgrid(xv, yv)
                for pose in self.scene.poses[L.code_id]:
                    kp = to_received(L, pose)
                    cm = np.maximum(cm, ref.confmap_single(kp, H, W, self.stride, self.sigma))
                    for e, (a, b) in enumerate(self.scene.edges):
                        if np.isnan(kp[a]).any() or np.isnan(kp[b]).any():
                            continue
                        d = kp[b] - kp[a]
                        Ln = np.hypot(*d)
                        if Ln == 0:
                            continue
                        w = np.exp(-ref.seg_distance(GX, GY, kp[a], kp[b]) ** 2 / (2 * self.paf_sigma ** 2))
                        pf[2 * e] += w * d[0] / Ln
                        pf[2 * e + 1] += w * d[1] / Ln
            cms.append(cm)
            pafs.append(pf)
        return {"MultiInstanceConfmapsHead": torch.from_numpy(np.stack(cms).astype(np.float32)),
                "PartAffinityFieldsHead": torch.from_numpy(np.stack(pafs).astype(np.float32))}


def tolerance(stride, input_scale, eff_scale):
    """Per-axis tolerance in original pixels: half an output cell + 0.75 px of network-input pixels."""
    return (0.5 * stride + 0.75) / (input_scale * eff_scale)
