"""CLI driver: ./check <ID> [--tier quick|thorough] [--replay PATH]

Parent mode shards the work over subprocesses (subprocess.run(timeout=) each,
never multiprocessing.Pool) and merges their observations; worker mode runs one
slice. A property module (vf/props/cNN.py) exports

    LEVEL, RULE, ASSUMPTIONS, SHARDS={"quick":n,"thorough":m}, TIMEOUT={...},
    BUDGET={...} (soft per-shard seconds), cases(ctx) -> iterator of JSON-able case
    dicts, check(ctx, case) -> None (reports through ctx), optional setup(ctx),
    finalize(ctx), directed(ctx) -> cases that every shard-0 run executes first.
"""
import argparse
import importlib
import json
import os
import subprocess
import sys
import tempfile
import time
import concurrent.futures as cf

from vf import core


def load_module(pid):
    return importlib.import_module(f"vf.props.{pid.lower()}")


def run_slice(ctx, module):
    from vf import compat

    compat.install()
    if hasattr(module, "setup"):
        module.setup(ctx)
    ctx.loop_t0 = time.time()  # the soft time budget covers the workload, not interpreter start-up / imports
    if hasattr(module, "run"):
        module.run(ctx)
    else:
        if ctx.shard == 0 and hasattr(module, "directed"):
            for case in module.directed(ctx):
                ctx.safe(module.check, case)
        for i, case in enumerate(module.cases(ctx)):
            if not getattr(module, "SELF_SHARDED", False) and i % ctx.nshards != ctx.shard:
                continue
            if ctx.out_of_time():
                break
            ctx.safe(module.check, case)
    if hasattr(module, "finalize"):
        module.finalize(ctx)


def main(argv=None):
    ap = argparse.ArgumentParser()
    ap.add_argument("pid")
    ap.add_argument("--tier", default=os.environ.get("VERIF_TIER", "quick"), choices=["quick", "thorough"])
    ap.add_argument("--replay")
    ap.add_argument("--shard", type=int)
    ap.add_argument("--nshards", type=int)
    ap.add_argument("--result")
    ap.add_argument("--seed", type=int, default=int(os.environ.get("VERIF_SEED", "0") or 0))
    args = ap.parse_args(argv)
    pid = args.pid.upper()
    module = load_module(pid)
    budget = getattr(module, "BUDGET", {}).get(args.tier)

    if args.replay:
        with open(args.replay) as f:
            rep = json.load(f)
        ctx = core.Ctx(pid, rep.get("tier", args.tier), rep.get("seed", args.seed))
        from vf import compat

        compat.install()
        if hasattr(module, "setup"):
            module.setup(ctx)
        ctx.safe(module.check, rep["case"])
        ctx.nontrivial.update(["replay", "replay2"])
        ctx.required = {}
        return core.finish(ctx, module, write_evidence=False)

    if args.shard is not None:
        ctx = core.Ctx(pid, args.tier, args.seed, args.shard, args.nshards, budget_s=budget)
        run_slice(ctx, module)
        with open(args.result, "w") as f:
            json.dump(ctx.dump(), f)
        return 0

    nshards = getattr(module, "SHARDS", {}).get(args.tier, 1)
    nshards = max(1, min(nshards, int(os.environ.get("VERIF_MAX_SHARDS", "16"))))
    ctx = core.Ctx(pid, args.tier, args.seed, 0, nshards, budget_s=budget)
    if nshards == 1:
        run_slice(ctx, module)
        return core.finish(ctx, module)

    timeout = getattr(module, "TIMEOUT", {}).get(args.tier, 1800)
    work = os.path.join(core.VERIF_ROOT, ".work", pid)
    os.makedirs(work, exist_ok=True)
    tmpd = tempfile.mkdtemp(prefix="run-", dir=work)

    def one(i):
        res = os.path.join(tmpd, f"shard{i}.json")
        log = os.path.join(tmpd, f"shard{i}.log")
        cmd = [sys.executable, "-m", "vf.main", pid, "--tier", args.tier, "--seed", str(args.seed),
               "--shard", str(i), "--nshards", str(nshards), "--result", res]
        with open(log, "w") as lf:
            try:
                p = subprocess.run(cmd, stdout=lf, stderr=subprocess.STDOUT, timeout=timeout)
                rc = p.returncode
            except subprocess.TimeoutExpired:
                rc = "timeout"
        out = None
        if os.path.exists(res):
            with open(res) as f:
                out = json.load(f)
        tail = ""
        if out is None:
            with open(log) as f:
                tail = f.read()[-2000:]
        return i, rc, out, tail

    with cf.ThreadPoolExecutor(max_workers=nshards) as ex:
        results = list(ex.map(one, range(nshards)))
    for i, rc, out, tail in results:
        if out is not None:
            ctx.merge(out)
        elif rc == "timeout":
            ctx.inconclusive.append(f"shard {i} hit the {timeout}s watchdog (inconclusive, not a violation)")
        else:
            ctx.errors.append(f"shard {i} exited {rc} without a result: {tail}")
    import shutil

    shutil.rmtree(tmpd, ignore_errors=True)
    try:
        os.rmdir(work)
    except OSError:
        pass
    return core.finish(ctx, module)


if __name__ == "__main__":
    sys.exit(main())
