"""End-to-end harness: coordinate-coded scenes on disk + real predictors with oracle networks."""
import os

import numpy as np

from vf import geom, oracle_net as on, synth


def make_poses(r, H, W, n_nodes, n_animals, body=22.0, missing_p=0.0, min_sep_factor=2.6, margin=20.0, tries=200):
    """Well-separated animals in general position, every keypoint >= margin px from the border/origin."""
    centres, poses = [], []
    for _ in range(n_animals):
        for _t in range(tries):
            c = np.array([r.uniform(margin + body, W - margin - body), r.uniform(margin + body, H - margin - body)])
            if all(np.hypot(*(c - q)) >= min_sep_factor * 2 * body for q in centres):
                break
        else:
            break
        centres.append(c)
        p = c + r.uniform(-body, body, (n_nodes, 2))
        p = np.clip(p, [margin, margin], [W - 1 - margin, H - 1 - margin])
        # keep nodes of one animal apart (>= 7 px) so that ideal bumps do not merge
        for k in range(1, n_nodes):
            for _t in range(50):
                if all(np.hypot(*(p[k] - p[j])) >= 9.0 for j in range(k)):
                    break
                p[k] = np.clip(c + r.uniform(-body, body, 2), [margin, margin], [W - 1 - margin, H - 1 - margin])
        if missing_p:
            m = r.random(n_nodes) < missing_p
            if m.sum() > n_nodes - 2:
                m[:] = False
            p[m] = np.nan
        poses.append(p + 0.0137)  # general position: no coordinate sits exactly on a cell boundary (a tie is a plateau, not a strict maximum)
    return poses


class SceneFiles:
    """Coded videos + labels on disk, and the matching ground-truth Scene."""

    def __init__(self, pid, name, videos, n_nodes, edges, poses_by_frame):
        """videos: list of (H, W, n_frames); poses_by_frame[(v, f)] = list of poses."""
        import sleap_io as sio

        self.dir = os.path.join(synth.workdir(pid), name)
        os.makedirs(self.dir, exist_ok=True)
        self.scene = on.Scene(n_nodes, edges)
        self.skel = synth.skeleton(n_nodes, edges=edges if edges else None)
        self.videos, self.video_paths, self.sizes = [], [], []
        code = 0
        self.code_of = {}
        for v, (H, W, n) in enumerate(videos):
            frames = np.zeros((n, H, W, 3), np.uint8)
            for f in range(n):
                frames[f] = geom.ramp_frame_uint8(H, W, code)
                self.code_of[(v, f)] = code
                self.scene.add(code, v, f, poses_by_frame.get((v, f), []))
                code += 1
            p = synth.write_h5_video(os.path.join(self.dir, f"video{v}.h5"), frames)
            self.video_paths.append(p)
            self.videos.append(sio.load_video(p))
            self.sizes.append((H, W))
        lfs = []
        for (v, f), poses in sorted(poses_by_frame.items()):
            insts = [synth.user_instance(p, self.skel) for p in poses if not np.isnan(p).all()]
            if not insts:
                continue
            lfs.append(sio.LabeledFrame(video=self.videos[v], frame_idx=f, instances=insts))
        self.labels = sio.Labels(lfs)
        self.labels_path = os.path.join(self.dir, "labels.slp")
        sio.save_slp(self.labels, self.labels_path)
        self.labeled_keys = [(v, f) for (v, f), poses in sorted(poses_by_frame.items()) if any(not np.isnan(p).all() for p in poses)]
        self.poses_by_frame = poses_by_frame

    def write_labels(self, order, name, keep_empty=True):
        """Write a labels file whose labeled frames are listed in `order` (list of (video, frame) keys)."""
        import sleap_io as sio

        lfs = []
        for (v, f) in order:
            poses = self.poses_by_frame.get((v, f), [])
            insts = [synth.user_instance(p, self.skel) for p in poses if not np.isnan(p).all()]
            if not insts and not keep_empty:
                continue
            lfs.append(sio.LabeledFrame(video=self.videos[v], frame_idx=f, instances=insts))
        labels = sio.Labels(labeled_frames=lfs, videos=list(self.videos), skeletons=[self.skel])
        path = os.path.join(self.dir, name)
        sio.save_slp(labels, path)
        return path


def base_cfg(scale=1.0, max_height=None, max_width=None, max_stride=16, crop_hw=None):
    from omegaconf import OmegaConf

    return OmegaConf.create({"data_config": {"preprocessing": {"scale": scale, "max_height": max_height, "max_width": max_width, "is_rgb": True, "crop_hw": crop_hw}},
                             "model_config": {"backbone_config": {"unet": {"max_stride": max_stride}}, "head_configs": {}}})


def single_predictor(sf, stride, sigma, scale, max_hw, max_stride, batch_size, refinement, log):
    from omegaconf import OmegaConf
    from sleap_nn.inference.predictors import SingleInstancePredictor

    cfg = base_cfg(scale, max_hw[0], max_hw[1], max_stride)
    cfg.model_config.head_configs = OmegaConf.create({"single_instance": {"confmaps": {"part_names": [n.name for n in sf.skel.nodes], "sigma": sigma, "output_stride": stride}}})
    net = on.OracleSingle(sf.scene, stride, sigma, max_stride=max_stride, log=log)
    pred = SingleInstancePredictor(confmap_config=cfg, confmap_model=net, backbone_type="unet", skeletons=[sf.skel], peak_threshold=0.2,
                                   integral_refinement=refinement, integral_patch_size=5, batch_size=batch_size)
    pred._initialize_inference_model()  # as from_trained_models() does
    return pred, net


def topdown_predictor(sf, c_stride, i_stride, sigma, c_scale, i_scale, max_hw, max_stride, crop, batch_size, refinement, anchor, max_instances, log):
    from omegaconf import OmegaConf
    from sleap_nn.inference.predictors import TopDownPredictor

    ccfg = base_cfg(c_scale, max_hw[0], max_hw[1], max_stride, crop_hw=[crop, crop])
    ccfg.model_config.head_configs = OmegaConf.create({"centroid": {"confmaps": {"anchor_part": anchor, "sigma": sigma, "output_stride": c_stride}}})
    icfg = base_cfg(i_scale, max_hw[0], max_hw[1], max_stride, crop_hw=[crop, crop])
    icfg.model_config.head_configs = OmegaConf.create({"centered_instance": {"confmaps": {"part_names": [n.name for n in sf.skel.nodes], "anchor_part": anchor, "sigma": sigma, "output_stride": i_stride}}})
    cnet = on.OracleCentroid(sf.scene, c_stride, sigma, anchor=anchor, max_stride=max_stride, log=log)
    inet = on.OracleCentered(sf.scene, i_stride, sigma, anchor=anchor, max_stride=max_stride, log=log)
    pred = TopDownPredictor(centroid_config=ccfg, confmap_config=icfg, centroid_model=cnet, confmap_model=inet, centroid_backbone_type="unet", centered_instance_backbone_type="unet",
                            skeletons=[sf.skel], peak_threshold=0.2, integral_refinement=refinement, integral_patch_size=5, batch_size=batch_size, max_instances=max_instances)
    pred._initialize_inference_model()  # as from_trained_models() does
    return pred, cnet, inet


def bottomup_predictor(sf, cms_stride, paf_stride, sigma, paf_sigma, scale, max_hw, max_stride, batch_size, refinement, log, max_instances=None, max_edge_length_ratio=0.5):
    from omegaconf import OmegaConf
    from sleap_nn.inference.predictors import BottomUpPredictor

    names = [n.name for n in sf.skel.nodes]
    cfg = base_cfg(scale, max_hw[0], max_hw[1], max_stride)
    cfg.model_config.head_configs = OmegaConf.create({"bottomup": {"confmaps": {"part_names": names, "sigma": sigma, "output_stride": cms_stride, "loss_weight": 1.0},
                                                                   "pafs": {"edges": [[names[a], names[b]] for a, b in sf.scene.edges], "sigma": paf_sigma, "output_stride": paf_stride, "loss_weight": 1.0}}})
    net = on.OracleBottomUp(sf.scene, cms_stride, paf_stride, sigma, paf_sigma, max_stride=max_stride, log=log)
    pred = BottomUpPredictor(bottomup_config=cfg, bottomup_model=net, backbone_type="unet", skeletons=[sf.skel], peak_threshold=0.2, integral_refinement=refinement,
                             integral_patch_size=5, batch_size=batch_size, max_instances=max_instances, min_line_scores=0.25, n_points=10, max_edge_length_ratio=max_edge_length_ratio)
    pred._initialize_inference_model()  # as from_trained_models() does
    return pred, net


def run(pred, provider, sf, video=0, queue_maxsize=4, timeout=120, labels_path=None, start=None, end=None):
    """make_pipeline + predict(make_labels=False) with a watchdog; returns list of output dicts."""
    import threading

    path = (labels_path or sf.labels_path) if provider == "LabelsReader" else sf.video_paths[video]
    pred.make_pipeline(provider, path, queue_maxsize=queue_maxsize, video_start_idx=start, video_end_idx=end)
    box = {}

    def work():
        try:
            box["out"] = pred.predict(make_labels=False)
        except BaseException as e:  # noqa
            box["exc"] = e

    t = threading.Thread(target=work, daemon=True)
    t.start()
    t.join(timeout)
    if t.is_alive():
        raise TimeoutError("predict() did not finish (reader thread / consumer hang)")
    if "exc" in box:
        raise box["exc"]
    return box["out"]


def eff_scale_for(H, W, max_hw):
    mh, mw = max_hw
    if mh is None and mw is None:
        return 1.0
    mh, mw = mh or H, mw or W
    if (mh, mw) == (H, W):
        return 1.0
    return min(mh / H, mw / W)


def tol(stride, H, W, max_hw, scale):
    """Per-axis tolerance in original pixels: half an output cell (the property's claim) plus the
    explicit integer-size rounding of the repository's resizing steps, which is not part of it:
    the size matcher rounds the resized content (<= 0.5 px at the far edge) and resize_image
    truncates int(dim*scale) (< 1 px at the far edge); 0.35 px covers uint8 coding / fit error."""
    eff = eff_scale_for(H, W, max_hw)
    allow = 0.35
    mh, mw = (max_hw[0] or H, max_hw[1] or W) if (max_hw[0] or max_hw[1]) else (H, W)
    if eff != 1.0:
        allow += 0.5 * scale
    if scale != 1.0:
        allow += max(mh * scale - int(mh * scale), mw * scale - int(mw * scale))
    return (0.5 * stride + allow) / (scale * eff)


KEY_BORDER = "integral-refinement-biased-when-patch-truncated-by-map-border"


def integral_border_model(ent, pts_orig, stride, sigma, patch=5):
    """What a decoder that takes the arg-max cell of the ideal Gaussian and refines it by the centre of mass of a
    patch x patch window (zero outside the map) would answer, in original-image coordinates.

    ent: log entry of the oracle network for the frame (shape of the received image and the fitted axis-aligned map).
    Returns (model (n,2), truncated (n,) bool): truncated = the window around the arg-max cell sticks out of the map."""
    H, W = ent["shape"]
    ax, ay = ent["a"]
    bx, by = ent["b"]
    cx, cy = (bx + 0.5) / ax - 0.5, (by + 0.5) / ay - 0.5
    pts = np.asarray(pts_orig, float).reshape(-1, 2)
    gh, gw = H // stride, W // stride
    ys, xs = np.arange(gh) * stride, np.arange(gw) * stride
    h = patch // 2
    off = np.arange(patch) - (patch - 1) / 2.0
    model = np.full_like(pts, np.nan)
    trunc = np.zeros(len(pts), bool)
    for k, (x, y) in enumerate(pts):
        if not (np.isfinite(x) and np.isfinite(y)):
            continue
        xr, yr = x / ax - cx, y / ay - cy  # position in the received image
        m = np.exp(-((xs[None] - xr) ** 2 + (ys[:, None] - yr) ** 2) / (2 * (sigma * stride) ** 2))
        iy, ix = np.unravel_index(int(np.argmax(m)), m.shape)
        P = np.zeros((patch, patch))
        for dy in range(-h, patch - h):
            for dx in range(-h, patch - h):
                if 0 <= iy + dy < gh and 0 <= ix + dx < gw:
                    P[dy + h, dx + h] = m[iy + dy, ix + dx]
        trunc[k] = iy - h < 0 or ix - h < 0 or iy + (patch - 1 - h) >= gh or ix + (patch - 1 - h) >= gw
        qx = (ix + (P.sum(0) * off).sum() / P.sum()) * stride
        qy = (iy + (P.sum(1) * off).sum() / P.sum()) * stride
        model[k] = [(qx + cx) * ax, (qy + cy) * ay]
    return model, trunc
