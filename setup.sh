#!/bin/bash
# Offline setup: put icontract/deal beside the repository's interpreter (git-ignored .deps).
HERE="$(cd "$(dirname "${BASH_SOURCE[0]}")" && pwd)"
mkdir -p "$HERE/.deps" "$HERE/evidence" "$HERE/.work"
if [ ! -d "$HERE/.deps/icontract" ]; then
  PIP_NO_INDEX=1 /venv/bin/pip install --quiet --no-index --find-links /opt/veriftools/wheels \
    --target "$HERE/.deps" icontract deal || echo "WARN: icontract/deal not installed (ambient contracts disabled)"
fi
exit 0
